// C13 - factory operators are exactly the documented projectors, identity and generators
#include "common/lib.h"

const char* PROPERTY = "C13";
const int LMAX = 96;
const char* RULE =
    "enum: every (d in 2..6, factory in {Projector,Identity,Generator,PosProjector,NegProjector}, admissible index) "
    "[exhaustive]; pbt: the same objects plus random linear combinations of projectors and Pos/Neg pairs. "
    "Oracle: independent closed-form Gell-Mann model toM(result) vs the documented 0/1 matrix (16 eps), "
    "idempotence/orthogonality/completeness in the model and through the library's own scalar product. "
    "Non-trivial: every case (each is a distinct factory object or combination); distinct by (d,kind,index,coefficients).";
void harness_init() {}

static const ld TOL = 16 * EPS;

static void expect_diag(const SU_vector& v, int d, const std::vector<ld>& diag, const std::string& what, ld tol) {
  CHECK((int)v.Dim() == d && (int)v.Size() == d * d, "C13|" + what + "|wrong-dimension", "dim=%u size=%u expected d=%d", v.Dim(), v.Size(), d);
  Mat M = toM(v);
  for (int i = 0; i < d; i++) for (int j = 0; j < d; j++) {
    cld want = i == j ? cld(diag[i], 0) : cld(0, 0);
    ld err = cabsl_(M.a[i][j] - want);
    CHECK(err <= tol, "C13|" + what + "|wrong-matrix", "d=%d entry (%d,%d) = %.17g%+.17gi, expected %.17g (err %.3g) comps=%s",
          d, i, j, (double)M.a[i][j].real(), (double)M.a[i][j].imag(), (double)want.real(), (double)err, vec_str(comps(v)).c_str());
  }
}

void run_case(ByteSource& s, CaseInfo& ci) {
  int d = gen_dim(s);
  unsigned kind = s.choose(8);
  ci.nontrivial = true;
  // earlier use of the library on this thread (conversions from complex matrices, factories of other dimensions) must leave no trace
  int npre = (int)s.choose(4);
  for (int q = 0; q < npre; q++) {
    int pd = gen_dim(s);
    switch (s.choose(4)) {
      case 0: { Mat M(pd); for (int i = 0; i < pd; i++) for (int j = i; j < pd; j++) { double re = 1.0 + i + 0.5 * j, im = i == j ? 0.0 : 0.75 + 0.25 * (i + j); M.a[i][j] = cld(re, im); M.a[j][i] = cld(re, -im); } GslMat g(M); SU_vector v(g.m); (void)v; break; }
      case 1: { SU_vector v = SU_vector::Projector(pd, (int)s.choose(pd)); v *= 2.5; break; }
      case 2: { SU_vector v = SU_vector::Identity(pd) - SU_vector::PosProjector(pd, (int)s.choose(pd)); (void)v; break; }
      default: { SU_vector v = SU_vector::NegProjector(pd, (int)s.choose(pd)); auto g = v.GetGSLMatrix(); (void)g; break; }
    }
  }
  if (npre) ci.label(fmt("earlier-calls-%d", npre));
  switch (kind) {
    case 0: {  // Projector
      int i = (int)s.choose(d);
      ci.sample = fmt("Projector(%d,%d)", d, i); ci.label("Projector");
      ci.set_digest(fnv1a(ci.sample.data(), ci.sample.size()));
      SU_vector P = SU_vector::Projector(d, i);
      std::vector<ld> diag(d, 0); diag[i] = 1;
      expect_diag(P, d, diag, "Projector", TOL);
      // idempotent and orthogonal to the others, through the library's scalar product and anticommutator
      for (int j = 0; j < d; j++) {
        SU_vector Q = SU_vector::Projector(d, j);
        double tr = P * Q;
        CHECK(fabsl((ld)tr - (i == j ? 1 : 0)) <= 64 * EPS, "C13|Projector|not-orthonormal", "Tr(P%d P%d)=%.17g d=%d", i, j, tr, d);
        SU_vector AC(squids::ACommutator(P, Q));
        Mat want(d); if (i == j) want.a[i][i] = cld(2, 0);
        ld err = maxabs(toM(AC) - want);
        CHECK(err <= 64 * EPS, "C13|Projector|anticommutator", "{P%d,P%d} off by %.3g d=%d", i, j, (double)err, d);
      }
      break;
    }
    case 1: {
      ci.sample = fmt("Identity(%d)", d); ci.label("Identity");
      ci.set_digest(fnv1a(ci.sample.data(), ci.sample.size()));
      SU_vector I = SU_vector::Identity(d);
      expect_diag(I, d, std::vector<ld>(d, 1), "Identity", TOL);
      // projectors sum to the identity
      SU_vector S(d);
      for (int i = 0; i < d; i++) S += SU_vector::Projector(d, i);
      expect_diag(S, d, std::vector<ld>(d, 1), "Projector-sum", 4 * TOL);
      break;
    }
    case 2: {
      int k = (int)(s.u16() % (unsigned)(d * d));
      ci.sample = fmt("Generator(%d,%d)", d, k); ci.label("Generator");
      ci.set_digest(fnv1a(ci.sample.data(), ci.sample.size()));
      SU_vector G = SU_vector::Generator(d, k);
      CHECK((int)G.Dim() == d && (int)G.Size() == d * d, "C13|Generator|wrong-dimension", "dim=%u", G.Dim());
      for (int i = 0; i < d * d; i++)
        CHECK(G[i] == (i == k ? 1.0 : 0.0), "C13|Generator|wrong-component", "Generator(%d,%d)[%d]=%.17g", d, k, i, G[i]);
      break;
    }
    case 3: case 4: {
      int k = (int)s.choose(d);
      bool pos = kind == 3;
      ci.sample = fmt("%sProjector(%d,%d)", pos ? "Pos" : "Neg", d, k); ci.label(pos ? "PosProjector" : "NegProjector");
      ci.set_digest(fnv1a(ci.sample.data(), ci.sample.size()));
      SU_vector P = pos ? SU_vector::PosProjector(d, k) : SU_vector::NegProjector(d, k);
      std::vector<ld> diag(d, 0);
      for (int i = 0; i < d; i++) diag[i] = pos ? (i < k ? 1 : 0) : (i >= d - k ? 1 : 0);
      expect_diag(P, d, diag, pos ? "PosProjector" : "NegProjector", TOL);
      // idempotent in the model
      Mat M = toM(P);
      CHECK(maxabs(M * M - M) <= 64 * EPS, std::string("C13|") + (pos ? "Pos" : "Neg") + "Projector|not-idempotent", "d=%d k=%d", d, k);
      break;
    }
    case 5: {  // complement pair
      if (d < 2) break;
      int k = 1 + (int)s.choose(d - 1);  // 0<k<d
      ci.sample = fmt("PosProjector(%d,%d)+NegProjector(%d,%d)", d, k, d, d - k); ci.label("complement");
      ci.set_digest(fnv1a(ci.sample.data(), ci.sample.size()));
      SU_vector S = SU_vector::PosProjector(d, k) + SU_vector::NegProjector(d, d - k);
      expect_diag(S, d, std::vector<ld>(d, 1), "complement", 4 * TOL);
      break;
    }
    case 7: {  // a returned object is an independent value: modifying it must not change what the factory returns later
      unsigned f = s.choose(5); int idx = (int)s.choose(d); int gi = (int)(s.u8() % (unsigned)(d * d));
      auto make = [&]() -> SU_vector { switch (f) { case 0: return SU_vector::Projector(d, idx); case 1: return SU_vector::Identity(d); case 2: return SU_vector::PosProjector(d, idx); case 3: return SU_vector::NegProjector(d, idx); default: return SU_vector::Generator(d, gi); } };
      static const char* fn[] = {"Projector", "Identity", "PosProjector", "NegProjector", "Generator"};
      ci.sample = fmt("%s(%d,..) requested, modified in place, requested again", fn[f], d); ci.label("mutate-then-request-again");
      SU_vector first = make();
      std::vector<double> ref = comps(first);
      unsigned how = s.choose(4);
      if (how == 0) first *= 3.0; else if (how == 1) first[(int)(s.u8() % (unsigned)(d * d))] = 7.5; else if (how == 2) first -= SU_vector::Projector(d, 0); else { SU_vector c = SU_vector::Identity(d) - SU_vector::Projector(d, (int)s.choose(d)); (void)c; first += c; }
      SU_vector second = make();
      CHECK(&second[0] != &first[0], std::string("C13|") + fn[f] + "|shares-storage-with-earlier-result", "d=%d", d);
      for (int i = 0; i < d * d; i++) CHECK(bit_equal(second[i], ref[i]), std::string("C13|") + fn[f] + "|changed-by-modifying-earlier-result", "d=%d slot %d: %.17g, first request gave %.17g (how=%u)", d, i, second[i], ref[i], how);
      break;
    }
    default: {  // random linear combination of projectors
      std::vector<double> a(d);
      SU_vector S(d);
      std::vector<ld> diag(d);
      ld sc = 0;
      for (int i = 0; i < d; i++) { a[i] = s.num(8); diag[i] = a[i]; sc += fabsl((ld)a[i]); S += a[i] * SU_vector::Projector(d, i); }
      ci.sample = fmt("sum a_i Projector(%d,i), a=%s", d, vec_str(a).c_str()); ci.label("lincomb");
      expect_diag(S, d, diag, "lincomb", TOL * (1 + sc) * d);
      break;
    }
  }
}

void enumerate(const Emit& emit, const std::string&) {
  for (int d = 2; d <= 6; d++) {
    uint8_t db = (uint8_t)(d - 2);
    for (int i = 0; i < d; i++) emit({db, 0, 0, (uint8_t)i});
    emit({db, 1, 0});
    for (int k = 0; k < d * d; k++) emit({db, 2, 0, (uint8_t)k, 0});
    for (int k = 0; k < d; k++) { emit({db, 3, 0, (uint8_t)k}); emit({db, 4, 0, (uint8_t)k}); }
    for (int k = 1; k < d; k++) emit({db, 5, 0, (uint8_t)(k - 1)});
  }
}

// fixed finding 61be2fb: NegProjector(d,k) had k-1 ones
void regressions() {
  for (int d = 2; d <= 6; d++) for (int k = 0; k < d; k++) {
    SU_vector P = SU_vector::NegProjector(d, k);
    std::vector<ld> diag(d, 0); for (int i = d - k; i < d; i++) diag[i] = 1;
    expect_diag(P, d, diag, "NegProjector", TOL);
    if (k > 0) { SU_vector S = SU_vector::PosProjector(d, d - k) + P; expect_diag(S, d, std::vector<ld>(d, 1), "complement", 4 * TOL); }
  }
}
