// C18 - independent use from several threads is race free and gives sequential results
#define HARNESS_MAIN_THREAD_CASES 1  // this harness owns its threads and per-thread baselines
#include "common/lib.h"
#include "common/ledger.h"
#include <SQuIDS/SQuIDS.h>
#include <thread>
#include <mutex>
#include <condition_variable>
#include <sched.h>

const char* PROPERTY = "C18";
const int LMAX = 400;
const char* RULE =
    "generated concurrent programs: 2..4 threads, each with its own vectors of a thread-specific dimension and two phases of up to 8 operations "
    "(commutator algebra, plane and Const rotations, UTransform(v,scale) = matrix exponential, eigen-systems, evolution through prepared buffers, "
    "allocation churn, const queries GetExpectationValue / GetExpectationValueD / GetIntermediateState on one shared no-longer-evolving solver, "
    "generated sched_yield/spin counts); in phase 1 threads deposit vectors in a mutex-protected mailbox, in phase 2 the addressee uses and then "
    "destroys or resizes them (a block allocated on one thread is released on another). Every program is run concurrently (3 repetitions) and "
    "once with the same threads serialised by a turn variable. Oracle: (1) ThreadSanitizer build: no report; (2) ASan/UBSan build: no report; "
    "(3) every number each thread computed is bit-identical between the concurrent and the serialised run; (4) after the workers are joined and "
    "the main thread's cache is cleared the new[] ledger is back to its value before the run (what a thread cached is given back when it ends). "
    "Non-trivial: at least two threads execute a library operation in the same phase and at least one hand-over happened; distinct by digest of "
    "consumed bytes.";

struct SharedSol : public squids::SQuIDS {
  int d;
  SharedSol(unsigned nx, unsigned dd, unsigned nr) : squids::SQuIDS(nx, dd, nr, 0, 0.5), d((int)dd) {}
  SU_vector H0(double x, unsigned ir) const override { SU_vector h(d); for (int k = 1; k < d; k++) h[d * k + k] = 0.3 * k + 0.05 * x + 0.1 * ir; return h; }
  void fill() { for (unsigned ix = 0; ix < nx; ix++) for (unsigned ir = 0; ir < nrhos; ir++) for (int k = 0; k < d * d; k++) state[ix].rho[ir][k] = 0.1 + 0.01 * k + 0.02 * ix + 0.005 * ir; }
};
static void warm_main() {
  { SharedSol s(2, 3, 1); s.Set_xrange(0.0, 1.0, "linear"); s.fill(); SU_vector o(3); o[1] = 1; std::vector<bool> avr(3); s.GetExpectationValueD(o, 0, 0.5); s.GetExpectationValueD(o, 0, 0.5, 1e9, avr);
    SU_vector v(3); v[4] = 0.3; SU_vector r = o.UTransform(v, gsl_complex_rect(0, 1)); (void)r; }
  SU_vector::clear_mem_cache();
}
void harness_init() { quiet_gsl(); warm_main(); }

struct OpSpec { int kind; int p1, p2; double x; };
struct ThreadProg { int d; std::vector<OpSpec> phase[2]; std::vector<double> seedvals; };
struct Item { int from, seq; std::unique_ptr<SU_vector> v; };
struct Mail { std::mutex m; std::vector<Item> box[4]; };
struct Turn {
  std::mutex m; std::condition_variable cv; int nthreads; bool sequential; int phase_done[2] = {0, 0}; int turn = 0; int arrived[2] = {0, 0};
  // concurrent: barrier between the phases; sequential: strict rotation thread 0 phase 0, thread 1 phase 0, ..., thread 0 phase 1, ...
  void begin(int t, int phase) {
    std::unique_lock<std::mutex> lk(m);
    if (sequential) { cv.wait(lk, [&] { return turn == phase * nthreads + t; }); return; }
    if (phase == 1) cv.wait(lk, [&] { return phase_done[0] == nthreads; });
    // start barrier: all threads enter the phase together, which maximises the overlap of their library calls
    arrived[phase]++; cv.notify_all();
    cv.wait(lk, [&] { return arrived[phase] == nthreads; });
  }
  void end(int, int phase) { std::unique_lock<std::mutex> lk(m); phase_done[phase]++; turn++; cv.notify_all(); }
};

// a per-thread accumulator that exists before the thread's first allocation (so it is destroyed after the thread's block
// cache): its storage must still be released when the thread ends
static thread_local SU_vector tl_accumulator;
static void run_ops(int t, int phase, const ThreadProg& pr, const SharedSol& sol, Mail& mail, int nthreads, std::vector<double>& out, std::vector<std::unique_ptr<SU_vector>>& mine) {
  int d = pr.d;
  auto val = [&](int k) { return pr.seedvals[(size_t)k % pr.seedvals.size()]; };
  bool use_acc = (pr.seedvals.size() + (size_t)t) % 2 == 0 || pr.d % 2 == 0;
  if (use_acc && phase == 0) { volatile unsigned touch = tl_accumulator.Dim(); (void)touch; }  // constructed (empty) before anything is allocated here
  SU_vector a(d), b(d);
  for (int k = 0; k < d * d; k++) { a[k] = val(k + 7 * phase); b[k] = val(2 * k + 3); }
  if (phase == 1) {  // take what the other threads sent; the blocks were allocated there and are released here
    std::vector<Item> got;
    { std::lock_guard<std::mutex> lk(mail.m); got.swap(mail.box[t]); }
    // arrival order depends on the schedule; the results must not: process in (sender, sequence) order
    std::sort(got.begin(), got.end(), [](const Item& x, const Item& y) { return x.from != y.from ? x.from < y.from : x.seq < y.seq; });
    for (auto& it : got) {
      std::unique_ptr<SU_vector>& v = it.v;
      double s = 0; for (unsigned k = 0; k < v->Size(); k++) s += (*v)[k] * (k + 1);
      out.push_back(s); out.push_back((double)v->Dim());
      *v *= 2.0; out.push_back((*v)[1]);
      if (out.size() % 2) *v = a;  // resize onto this thread's dimension: releases the foreign block here
      out.push_back((*v) * (*v));
    }
    got.clear();
  }
  for (const OpSpec& op : pr.phase[phase]) {
    switch (op.kind) {
      case 0: { SU_vector c = squids::iCommutator(a, b) + squids::ACommutator(a, b) * 0.5; for (int k = 0; k < d * d; k++) out.push_back(c[k]); a += c * 0.01; break; }
      case 1: { int i = op.p1 % (d - 1), j = i + 1 + op.p2 % (d - 1 - i); SU_vector r = a.Rotate(i, j, op.x, 0.3); squids::Const p; p.SetMixingAngle(0, 1, op.x); p.SetPhase(0, 1, 0.2); r.RotateToB1(p); for (int k = 0; k < d * d; k++) out.push_back(r[k]);
        // the matrix-taking entry points, each thread with a matrix of its own
        auto U = p.GetTransformationMatrix(d);
        SU_vector r1 = r.UTransform(U.get()), r2 = r.UDaggerTransform(U.get()), r3 = r.Rotate(U.get());
        for (int k = 0; k < d * d; k++) { out.push_back(r1[k]); out.push_back(r2[k]); out.push_back(r3[k]); }
        break; }
      case 2: { SU_vector r = a.UTransform(b, gsl_complex_rect(0, 0.1 + fabs(op.x))); for (int k = 0; k < d * d; k++) out.push_back(r[k]); break; }
      case 3: { auto es = a.GetEigenSystem(true); for (int k = 0; k < d; k++) out.push_back(gsl_vector_get(es.first.get(), k)); break; }
      case 4: { SU_vector h(d); for (int k = 1; k < d; k++) h[d * k + k] = 0.2 * k + op.x; std::vector<double> buf(h.GetEvolveBufferSize()); h.PrepareEvolve(buf.data(), 1.0 + op.x); SU_vector r(a.Evolve(buf.data())); b = r; for (int k = 0; k < d * d; k++) out.push_back(r[k]); break; }
      case 5: {  // allocation churn in every dimension, including the zero-size block of a vector assigned from an empty one
        std::vector<std::unique_ptr<SU_vector>> tmp; for (int k = 0; k < 2 + op.p1 % 6; k++) tmp.emplace_back(new SU_vector(2 + (op.p2 + k) % 5));
        if (op.p1 & 1) { SU_vector e; *tmp[0] = e; out.push_back((double)tmp[0]->Dim()); }
        out.push_back((double)tmp.size()); break;
      }
      case 6: {  // const queries on the shared solver
        SU_vector o(sol.d); for (int k = 0; k < sol.d * sol.d; k++) o[k] = val(k + 1);
        unsigned ir = (unsigned)op.p1 % sol.Get_nrhos();
        double x = 1.0 + 8.0 * fabs(std::fmod(op.x, 1.0));
        out.push_back(sol.GetExpectationValue(o, ir, (unsigned)op.p2 % sol.Get_nx()));
        out.push_back(sol.GetExpectationValueD(o, ir, x));
        std::vector<bool> avr(sol.d * (sol.d - 1) / 2);
        out.push_back(sol.GetExpectationValueD(o, ir, x, 1e300, avr));
        SU_vector is = sol.GetIntermediateState(ir, x); for (int k = 0; k < sol.d * sol.d; k++) out.push_back(is[k]);
        break;
      }
      case 7: { for (int k = 0; k < op.p1 % 4; k++) sched_yield(); volatile int spin = 0; for (int k = 0; k < (op.p2 % 8) * 200; k++) spin = spin + 1; break; }
      default: {  // deposit a vector for the next thread (phase 0 only)
        if (phase != 0) break;
        std::unique_ptr<SU_vector> v(new SU_vector(d)); for (int k = 0; k < d * d; k++) (*v)[k] = a[k] + op.x;
        int to = (t + 1 + op.p1 % (nthreads - 1)) % nthreads;
        std::lock_guard<std::mutex> lk(mail.m); mail.box[to].push_back(Item{t, (int)out.size(), std::move(v)}); break;
      }
    }
  }
  if (use_acc) { if (tl_accumulator.Dim() != (unsigned)d) tl_accumulator = a; else tl_accumulator += a; out.push_back(tl_accumulator[1]); }
  (void)mine;
}

static std::vector<std::vector<double>> run_program(const std::vector<ThreadProg>& progs, const SharedSol& sol, bool sequential) {
  int n = (int)progs.size();
  std::vector<std::vector<double>> out(n);
  Mail mail; Turn turn; turn.nthreads = n; turn.sequential = sequential;
  std::vector<std::thread> th;
  for (int t = 0; t < n; t++) th.emplace_back([&, t] {
    std::vector<std::unique_ptr<SU_vector>> mine;
    for (int phase = 0; phase < 2; phase++) { turn.begin(t, phase); run_ops(t, phase, progs[t], sol, mail, n, out[t], mine); turn.end(t, phase); }
  });
  for (auto& x : th) x.join();
  return out;
}

void run_case(ByteSource& s, CaseInfo& ci) {
  int n = 2 + (int)s.choose(3);
  std::vector<ThreadProg> progs(n);
  int dbase = (int)s.choose(5);
  std::string desc = fmt("threads=%d", n);
  int handovers = 0; int libops[2] = {0, 0};
  for (int t = 0; t < n; t++) {
    progs[t].d = 2 + (dbase + t) % 5;
    for (int k = 0; k < 12; k++) progs[t].seedvals.push_back(s.dense() + 0.01 * (k + 1));
    desc += fmt(" | T%d(d=%d):", t, progs[t].d);
    for (int phase = 0; phase < 2; phase++) {
      int len = 1 + (int)s.choose(8);
      for (int k = 0; k < len; k++) { OpSpec op; op.kind = (int)s.choose(9); op.p1 = (int)s.u8(); op.p2 = (int)s.u8(); op.x = s.dense(); progs[t].phase[phase].push_back(op); if (op.kind == 8 && phase == 0) handovers++; if (op.kind != 7 && op.kind != 8) libops[phase] |= 1 << t; desc += fmt(" %d", op.kind); }
      desc += phase == 0 ? " ;" : "";
    }
  }
  ci.sample = desc;
  int sd = 2 + (int)s.choose(5);
  size_t live0 = ledger::live_blocks(); uint64_t bad0 = ledger::bad_delete_count();
  {
    SharedSol sol(2 + s.choose(4), sd, 1 + s.choose(2));
    sol.Set_xrange(1.0, 9.0, s.flag() ? "linear" : "log"); sol.fill();
    sol.Evolve(0.7);  // numerics off: advances the clock; afterwards the object is only queried
    std::vector<std::vector<double>> ref = run_program(progs, sol, true);
    for (int rep = 0; rep < 3; rep++) {
      std::vector<std::vector<double>> got = run_program(progs, sol, false);
      for (int t = 0; t < n; t++) {
        CHECK(got[t].size() == ref[t].size(), "C18|result-count-differs", "thread %d: %zu vs %zu :: %s", t, got[t].size(), ref[t].size(), desc.c_str());
        for (size_t k = 0; k < got[t].size(); k++)
          CHECK(bit_equal(got[t][k], ref[t][k]) || (std::isnan(got[t][k]) && std::isnan(ref[t][k])), "C18|concurrent-result-differs-from-sequential", "thread %d value %zu: concurrent %.17g serialised %.17g (repetition %d) :: %s", t, k, got[t][k], ref[t][k], rep, desc.c_str());
      }
    }
  }
  SU_vector::clear_mem_cache();
  CHECK(ledger::bad_delete_count() == bad0, "C18|foreign-or-double-delete", "%p :: %s", ledger::last_bad, desc.c_str());
  size_t live1 = ledger::live_blocks();
  CHECK(live1 == live0, "C18|storage-cached-by-ended-threads-not-released", "%ld new[] block(s) still live after all worker threads ended and every object was destroyed :: %s", (long)live1 - (long)live0, desc.c_str());
  auto popcnt = [](int x) { int c = 0; while (x) { c += x & 1; x >>= 1; } return c; };
  ci.nontrivial = (popcnt(libops[0]) >= 2 || popcnt(libops[1]) >= 2) && handovers > 0;
  ci.label(fmt("threads-%d", n)); ci.label(handovers ? "handover" : "no-handover");
}
void enumerate(const Emit&, const std::string&) {}

// fixed finding d2482da: storage cached by a thread was never released when the thread ended
void regressions() {
  SU_vector::clear_mem_cache();
  size_t live0 = ledger::live_blocks();
  for (int rep = 0; rep < 3; rep++) {
    std::vector<std::thread> th;
    for (int t = 0; t < 3; t++) th.emplace_back([t] { for (int k = 0; k < 5; k++) { SU_vector a(2 + t), b(2 + t); a[1] = 1; b[2] = 1; SU_vector c = squids::iCommutator(a, b); (void)c; } });
    for (auto& x : th) x.join();
  }
  SU_vector::clear_mem_cache();
#ifndef LEDGER_INERT
  CHECK(ledger::live_blocks() == live0, "C18|storage-cached-by-ended-threads-not-released", "regression: %ld block(s) still live after the workers ended", (long)ledger::live_blocks() - (long)live0);
#endif
}
