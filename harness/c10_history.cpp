// C10 - evolved state and clock depend only on total elapsed time, not on call history
#include "common/solver.h"

const char* PROPERTY = "C10";
const int LMAX = 1400;
const char* RULE =
    "stateful: byte strings decoded into histories of up to 12 steps over the table-driven solver (time-dependent diagonal HI(t), constant "
    "diagonal GammaRho and source, scalar decay with constant source; closed-form piecewise propagation in absolute time): Evolve(dt>=0) incl. "
    "dt=0, toggling each term switch and AnyNumerics, changing stepper / adaptive / step count / tolerances / h, move-construction into a new "
    "object (old one destroyed or kept), move-assignment into a default-constructed or an initialised object, re-initialisation with a new "
    "shape and initial time, tolerances changed independently (a loose segment is followed by a resynchronisation of the model). Oracle: bit-identity with a "
    "twin object that receives the same settings and Evolve calls but is never moved; model clock t_ini + sum dt vs Get_t; state vs the piecewise exact propagation with the terms active in each "
    "segment (2e-7 (1+|state|) per tight numerical segment); with all numerics off the whole state is bit-identical before/after while the clock "
    "advances and the last PreDerive argument equals the new time; after every Evolve each estate rho has the same element-0 address as the state "
    "rho and the scalar pointers coincide; after a move all callbacks arrive on the new object and the old one can be destroyed; after "
    "re-initialisation Get_t()==Get_t_initial()==ti. Non-trivial: at least two numerical Evolve calls with a toggle, move or re-initialisation "
    "between them; distinct by digest of consumed bytes.";
void harness_init() { quiet_gsl(); }

struct Model {
  std::vector<std::vector<Mat>> r; std::vector<std::vector<ld>> s;
  double clock; ld tol_r = 0, tol_s = 0; int fixed_ulps = 0; int evolves = 0;
};
static void init_states(ByteSource& s, const Problem& p, TSolver& S, Model& m) {
  m.r.assign(p.nx, std::vector<Mat>(p.nr)); m.s.assign(p.nx, std::vector<ld>(p.ns));
  for (int ix = 0; ix < p.nx; ix++) {
    for (int ir = 0; ir < p.nr; ir++) { std::vector<double> c(p.d * p.d); for (auto& x : c) x = 0.3 + s.dense(); for (int k = 0; k < p.d * p.d; k++) S.rho(ix, ir)[k] = c[k]; m.r[ix][ir] = toM(c, p.d); }
    for (int is = 0; is < p.ns; is++) { double v = 0.5 + s.unif01(); S.scalar(ix, is) = v; m.s[ix][is] = v; }
  }
  m.clock = p.t_ini; m.tol_r = m.tol_s = 0; m.fixed_ulps = 0; m.evolves = 0;
}
static std::unique_ptr<Problem> gen_problem(ByteSource& s) {
  std::unique_ptr<Problem> p(new Problem());
  p->nx = 1 + (int)s.choose(3); p->d = gen_dim(s); p->nr = 1 + (int)s.choose(2); p->ns = (int)s.choose(3);
  unsigned tk = s.choose(5);
  p->t_ini = tk == 0 ? 0.0 : tk == 1 ? 2 * s.dense() : tk == 2 ? 100 * (0.5 + s.unif01()) : tk == 3 ? (double)s.range(-5, 5) : 0.0;
  p->family = FAM_DIAGONAL; p->manufactured_scalar = false; p->g_timedep = false;
  gen_problem_coeffs(s, *p);
  if (tk != 4 && s.tail_choose(3) == 1) p->f1 = 0;  // (tail byte) time-independent terms with an ordinary initial time: the clock is carried away from t_ini by free flights
  if (tk == 4) {
    // a clock far from zero (spacing of doubles at t up to 2.4e-4, comparable with the segments): the elapsed time is what counts. The
    // terms are made time independent here, so that the rounding of the absolute stage times cannot enter the comparison.
    p->t_ini = std::ldexp(1.0 + s.unif01(), s.range(20, 40)) * (s.flag() ? -1 : 1);
    p->f1 = 0;
  }
  return p;
}

void run_case(ByteSource& s, CaseInfo& ci) {
  std::vector<std::unique_ptr<Problem>> problems;
  problems.push_back(gen_problem(s));
  std::unique_ptr<TSolver> S(new TSolver(*problems.back()));
  std::unique_ptr<TSolver> graveyard;  // a moved-from object that is kept alive for a while
  const Problem* P = problems.back().get();
  Model m;
  unsigned mask = s.choose(32); bool any = true;
  S->set_mask(mask, s.choose(120));
  int stepper = 2; bool adaptive = true; unsigned nsteps = 100;
  S->Set_GSL_step(STEPPERS[stepper]); S->Set_rel_error(1e-10); S->Set_abs_error(1e-10); S->Set_h(1e-4); S->Set_h_max(0.05);
  init_states(s, *P, *S, m);
  // a twin that receives the same settings and Evolve calls but is never moved: results must be bit-identical to it
  std::unique_ptr<TSolver> T(new TSolver(*P));
  auto copy_state_to_twin = [&]() { for (int ix = 0; ix < P->nx; ix++) { for (int ir = 0; ir < P->nr; ir++) for (int k = 0; k < P->d * P->d; k++) T->rho(ix, ir)[k] = S->rho(ix, ir)[k]; for (int is = 0; is < P->ns; is++) T->scalar(ix, is) = S->scalar(ix, is); } };
  T->set_mask(mask, 0); T->Set_GSL_step(STEPPERS[stepper]); T->Set_rel_error(1e-10); T->Set_abs_error(1e-10); T->Set_h(1e-4); T->Set_h_max(0.05);
  copy_state_to_twin();
  double cur_rel = 1e-10, cur_abs = 1e-10;
  if (fabs(P->t_ini) > 1e5) ci.label("clock-far-from-zero");
  std::string hist = fmt("[nx=%d d=%d nr=%d ns=%d t_ini=%.6g mask=%u] ", P->nx, P->d, P->nr, P->ns, P->t_ini, mask);
  int numeric_evolves = 0, events_between = 0; bool nontrivial = false;
  int nstep = 2 + (int)s.choose(11);
  auto check_state = [&](const char* after) {
    for (int ix = 0; ix < P->nx; ix++) {
      for (int ir = 0; ir < P->nr; ir++) {
        Mat got = toM(S->rho(ix, ir)); ld sc = 1 + maxabs(m.r[ix][ir]); ld err = maxabs(got - m.r[ix][ir]);
        ci.ratio("state", (double)(err / (m.tol_r * sc + 1e-13L)));
        CHECK(err <= m.tol_r * sc + 1e-13L, "C10|state-differs-from-piecewise-exact-propagation", "after %s: node %d matrix %d error %.3Lg tol %.3Lg :: %s", after, ix, ir, err, m.tol_r * sc, hist.c_str());
      }
      for (int is = 0; is < P->ns; is++) {
        ld err = fabsl((ld)S->scalar(ix, is) - m.s[ix][is]);
        CHECK(err <= m.tol_s * (1 + fabsl(m.s[ix][is])) + 1e-13L, "C10|scalar-differs-from-piecewise-exact-propagation", "after %s: node %d scalar %d got %.17g model %.17Lg :: %s", after, ix, is, S->scalar(ix, is), m.s[ix][is], hist.c_str());
      }
    }
    double want = m.clock;
    // "up to rounding": one rounding of the running sum per call (the model adds the same dt in double); the n internal steps of a
    // fixed-step call are not n roundings of the clock (until /repo fix 3860b4f the tolerance had a term for them)
    CHECK(fabs(S->Get_t() - want) <= (2.0 + m.evolves) * 2.3e-16 * (fabs(want) + fabs(P->t_ini)) + 1e-300, "C10|clock", "after %s: Get_t=%.17g model %.17g :: %s", after, S->Get_t(), want, hist.c_str());
    CHECK(S->Get_t_initial() == P->t_ini, "C10|initial-time", "after %s: %.17g vs %.17g :: %s", after, S->Get_t_initial(), P->t_ini, hist.c_str());
  };
  for (int st = 0; st < nstep; st++) {
    unsigned op = s.choose(10);
    if (op <= 3) {  // Evolve
      double dt = s.choose(5) == 0 ? 0.0 : 0.05 + 0.4 * s.unif01();
      if (stepper == 0 && !adaptive) dt = std::min(dt, 0.1);
      unsigned eff = any ? mask : 0;
      // (tail bytes) two more interval classes for problems with time-independent terms: a very short interval - below the spacing of
      // doubles at a clock far from zero - and, while nothing is integrated, a long free flight that carries the clock far from t_ini
      if (P->f1 == 0 && dt > 0) {
        unsigned dk = s.tail_choose(6);
        if (dk == 1) { dt = std::ldexp(1.0 + s.tail_u8() / 256.0, -(int)(8 + s.tail_choose(12))); ci.label("dt-tiny"); }
        else if (dk == 2 && eff == 0) { dt = std::ldexp(1.0 + s.tail_u8() / 256.0, (int)(20 + s.tail_choose(14))); ci.label("free-flight"); }
      }
      // snapshot for the bit-identity check
      std::vector<std::vector<double>> before;
      for (int ix = 0; ix < P->nx; ix++) { for (int ir = 0; ir < P->nr; ir++) before.push_back(comps(S->rho(ix, ir))); std::vector<double> sc; for (int is = 0; is < P->ns; is++) sc.push_back(S->scalar(ix, is)); before.push_back(sc); }
      long pd0 = S->log.prederive_calls;
      hist += fmt("Evolve(%.6g)%s ", dt, eff ? "" : "[no numerics]");
      if (!adaptive) { nsteps = fixed_steps(stepper, eff ? std::max(dt, 1e-3) : 1e-3); /* nothing is integrated during a free flight */ S->Set_NumSteps(nsteps); }
      if (!adaptive) T->Set_NumSteps(nsteps);
      // GSL rejects a *fixed* step whose error estimate exceeds the tolerances; with fixed stepping the accuracy comes from the
      // step count, so the tolerances are kept out of the way for the duration of the call
      if (!adaptive) { S->Set_rel_error(1e-6); S->Set_abs_error(1e-6); T->Set_rel_error(1e-6); T->Set_abs_error(1e-6); }
      struct RestoreTol { TSolver *a, *b; double r, ab; bool on; ~RestoreTol() { if (on) { a->Set_rel_error(r); a->Set_abs_error(ab); b->Set_rel_error(r); b->Set_abs_error(ab); } } };
      double tprev = S->Get_t();
      struct Forbid { TSolver *a, *b; Forbid(TSolver* a_, TSolver* b_, bool on) : a(a_), b(b_) { a->forbid_terms = on; b->forbid_terms = on; } ~Forbid() { a->forbid_terms = false; b->forbid_terms = false; } } forbid(S.get(), T.get(), eff == 0);
      try { RestoreTol rt{S.get(), T.get(), cur_rel, cur_abs, !adaptive}; S->Evolve(dt); T->Evolve(dt); }
      catch (const Fail&) { throw; }
      catch (const std::exception& e) { throw Fail(fmt("C10|Evolve|throws|%s-%s|dt%s0", STEPPER_NAMES[stepper], adaptive ? "adaptive" : "fixed", dt == 0 ? "=" : ">"), fmt("exception '%s' :: %s", e.what(), hist.c_str())); }
      for (int ix = 0; ix < P->nx; ix++) {
        for (int ir = 0; ir < P->nr; ir++) for (int k = 0; k < P->d * P->d; k++) CHECK(bit_equal(S->rho(ix, ir)[k], T->rho(ix, ir)[k]), "C10|differs-from-never-moved-twin", "node %d matrix %d slot %d: %.17g vs twin %.17g :: %s", ix, ir, k, S->rho(ix, ir)[k], T->rho(ix, ir)[k], hist.c_str());
        for (int is = 0; is < P->ns; is++) CHECK(bit_equal(S->scalar(ix, is), T->scalar(ix, is)), "C10|scalar-differs-from-never-moved-twin", "node %d scalar %d: %.17g vs twin %.17g :: %s", ix, is, S->scalar(ix, is), T->scalar(ix, is), hist.c_str());
      }
      CHECK(bit_equal(S->Get_t(), T->Get_t()), "C10|clock-differs-from-never-moved-twin", "%.17g vs %.17g :: %s", S->Get_t(), T->Get_t(), hist.c_str());
      bool loose = adaptive && (cur_rel > 1e-9 || cur_abs > 1e-9);
      // the state is propagated over exactly dt from the model clock (the clock itself, t_ini + sum dt in double, is compared with Get_t
      // separately): with a clock far from zero the rounded clock cannot resolve dt, the evolution still has to
      (void)tprev;
      ld t0 = (ld)m.clock; m.clock = m.clock + dt; m.evolves++;
      ld t1 = t0 + (ld)dt;
      if (eff) {
        for (int ix = 0; ix < P->nx; ix++) { for (int ir = 0; ir < P->nr; ir++) m.r[ix][ir] = P->exact_rho(ix, ir, m.r[ix][ir], t0, t1, eff); for (int is = 0; is < P->ns; is++) m.s[ix][is] = P->exact_scalar(ix, is, m.s[ix][is], t0, t1, eff); }
        if (dt > 0) { m.tol_r += loose ? 3e-2L : 2e-7L; m.tol_s += loose ? 3e-2L : 2e-7L; numeric_evolves++; if (numeric_evolves >= 2 && events_between > 0) nontrivial = true; events_between = 0; }
      } else {
        size_t q = 0;
        for (int ix = 0; ix < P->nx; ix++) {
          for (int ir = 0; ir < P->nr; ir++, q++) { std::vector<double> now = comps(S->rho(ix, ir)); for (size_t k = 0; k < now.size(); k++) CHECK(bit_equal(now[k], before[q][k]), "C10|no-numerics-evolve-changed-state", "node %d matrix %d slot %zu :: %s", ix, ir, k, hist.c_str()); }
          for (int is = 0; is < P->ns; is++) CHECK(bit_equal(S->scalar(ix, is), before[q][is]), "C10|no-numerics-evolve-changed-scalar", "node %d scalar %d :: %s", ix, is, hist.c_str());
          q++;
        }
        CHECK(S->log.prederive_calls > pd0 && S->log.last_prederive == S->Get_t(), "C10|no-numerics-evolve|PreDerive-not-invoked-with-new-time", "calls %ld->%ld last arg %.17g Get_t %.17g :: %s", pd0, S->log.prederive_calls, S->log.last_prederive, S->Get_t(), hist.c_str());
      }
      CHECK(S->log.last_this == nullptr || S->log.last_this == (const void*)S.get(), "C10|callbacks-arrive-on-wrong-object", "%p vs %p :: %s", S->log.last_this, (void*)S.get(), hist.c_str());
      // the in-step view coincides with the stored state
      for (int ix = 0; ix < P->nx; ix++) {
        for (int ir = 0; ir < P->nr; ir++) CHECK(&S->erho(ix, ir)[0] == &S->rho(ix, ir)[0], "C10|estate-not-realiased-to-state", "node %d matrix %d after Evolve :: %s", ix, ir, hist.c_str());
        if (P->ns > 0) CHECK(S->escalar_ptr(ix) == S->scalar_ptr(ix), "C10|estate-scalars-not-realiased", "node %d :: %s", ix, hist.c_str());
      }
      check_state("Evolve");
      if (eff && loose && dt > 0) {  // a deliberately loose segment: continue from the library's own state so that later tight segments are judged on their own
        for (int ix = 0; ix < P->nx; ix++) { for (int ir = 0; ir < P->nr; ir++) m.r[ix][ir] = toM(S->rho(ix, ir)); for (int is = 0; is < P->ns; is++) m.s[ix][is] = S->scalar(ix, is); }
        m.tol_r = m.tol_s = 0; ci.label("loose-segment-resync");
      }
    } else if (op == 4) {  // toggle one switch
      unsigned bit = 1u << s.choose(5); mask ^= bit; S->set_one(bit, (mask & bit) != 0); if (!any) S->Set_AnyNumerics(false);  // only that switch's setter is called
      T->set_one(bit, (mask & bit) != 0); if (!any) T->Set_AnyNumerics(false);
      hist += fmt("mask=%u ", mask); events_between++;
    } else if (op == 5) {  // AnyNumerics
      any = !any; if (any) { S->set_mask(mask, s.choose(120)); T->set_mask(mask, 0); } else { S->Set_AnyNumerics(false); T->Set_AnyNumerics(false); }
      hist += fmt("AnyNumerics=%d ", (int)any); events_between++;
    } else if (op == 6) {  // numerics settings
      stepper = (int)s.choose(6); adaptive = stepper == 5 ? true : s.flag();
      S->Set_GSL_step(STEPPERS[stepper]); S->Set_AdaptiveStep(adaptive);
      T->Set_GSL_step(STEPPERS[stepper]); T->Set_AdaptiveStep(adaptive);
      // tolerances change independently of each other; a loose one (1e-4) marks the following segments as loose
      static const double rels[] = {1e-10, 1e-11, 1e-4}, abss[] = {1e-10, 1e-12, 1e-4};
      unsigned which = s.choose(4);
      if (which == 0 || which == 2) { cur_rel = rels[s.choose(3)]; S->Set_rel_error(cur_rel); T->Set_rel_error(cur_rel); }
      if (which == 1 || which == 2) { cur_abs = abss[s.choose(3)]; S->Set_abs_error(cur_abs); T->Set_abs_error(cur_abs); }
      double hh = s.flag() ? 1e-4 : 1e-3; S->Set_h(hh); T->Set_h(hh);
      { unsigned hk = s.tail_choose(3); double hm = hk == 1 ? 2e-3 : 0.05; S->Set_h_max(hm); T->Set_h_max(hm); if (hk == 1) ci.label("h_max-small"); }  // fixed stepping does not consult h_max
      hist += fmt("stepper=%s/%s rel=%g abs=%g ", STEPPER_NAMES[stepper], adaptive ? "adaptive" : "fixed", cur_rel, cur_abs); events_between++;
    } else if (op == 7) {  // move construction
      std::unique_ptr<TSolver> n(new TSolver(std::move(*S)));
      if (s.flag()) { graveyard = std::move(S); hist += "move-construct(old kept) "; } else { S.reset(); hist += "move-construct(old destroyed) "; }
      S = std::move(n); S->log.last_this = nullptr; events_between++;
      check_state("move-construct");
    } else if (op == 8) {  // move assignment
      std::unique_ptr<TSolver> n;
      if (s.flag()) { n.reset(new TSolver()); hist += "move-assign(into default) "; }
      else { problems.push_back(gen_problem(s)); n.reset(new TSolver(*problems.back())); n->set_mask(3); hist += "move-assign(into initialised) "; }
      *n = std::move(*S);
      if (s.flag()) graveyard = std::move(S); else S.reset();
      S = std::move(n); S->log.last_this = nullptr; events_between++;
      check_state("move-assign");
    } else {  // re-initialise
      problems.push_back(gen_problem(s));
      P = problems.back().get();
      S->reinit(*P);
      init_states(s, *P, *S, m);
      T->reinit(*P); copy_state_to_twin();
      hist += fmt("reinit[nx=%d d=%d nr=%d ns=%d t_ini=%.6g] ", P->nx, P->d, P->nr, P->ns, P->t_ini); events_between++;
      CHECK(S->Get_t() == P->t_ini && S->Get_t_initial() == P->t_ini, "C10|reinit|clock-not-fresh", "Get_t=%.17g Get_t_initial=%.17g ti=%.17g :: %s", S->Get_t(), S->Get_t_initial(), P->t_ini, hist.c_str());
      check_state("reinit");
    }
    if (graveyard && s.choose(3) == 0) { graveyard.reset(); hist += "(old object destroyed) "; }
  }
  graveyard.reset();
  check_state("end");
  ci.nontrivial = nontrivial;
  ci.label(nontrivial ? "history-nontrivial" : "history-simple"); ci.label(fmt("numeric-evolves-%d", std::min(numeric_evolves, 5)));
  ci.sample = hist;
}
void enumerate(const Emit&, const std::string&) {}

// no defect of the pinned tree was found behind this property
// fixed findings 9855a0d (failed Evolve: in-step view, clock) and 3860b4f (integration in absolute time: clock drift with fixed steps, evolution
// lost or gained when the clock is far from zero)
void regressions() {
  for (double ti : {4.0, 1e8, -3.5e11}) for (int fixed = 0; fixed < 2; fixed++) {
    Problem p; p.nx = 1; p.d = 2; p.nr = 1; p.ns = 1; p.t_ini = ti; p.family = FAM_DIAGONAL; p.manufactured_scalar = false; p.g_timedep = false;
    uint8_t zero[1] = {0}; ByteSource bs(zero, 0); gen_problem_coeffs(bs, p); p.f1 = 0;
    TSolver S(p);
    S.set_mask(M_COH | M_GS, 0);
    S.Set_GSL_step(gsl_odeiv2_step_rkf45); S.Set_AdaptiveStep(!fixed); S.Set_NumSteps(100); S.Set_h(1e-4); S.Set_h_max(0.05);
    S.Set_rel_error(fixed ? 1e-4 : 1e-10); S.Set_abs_error(fixed ? 1e-4 : 1e-10);
    for (int k = 0; k < 4; k++) S.rho(0, 0)[k] = 0.3 + 0.1 * k;
    S.scalar(0, 0) = 1.0;
    Mat r0 = toM(comps(S.rho(0, 0)), 2); ld s0 = 1.0L;
    double clock = ti; const int ncalls = 64; const double dt = 1.0 / 128;
    for (int c = 0; c < ncalls; c++) { S.Evolve(dt); clock += dt; }
    CHECK(S.Get_t() == clock, "C10|clock", "regression: t_ini=%g %s: Get_t=%.17g, t_ini + 64 x 2^-7 = %.17g", ti, fixed ? "fixed" : "adaptive", S.Get_t(), clock);
    ld T = (ld)ncalls * (ld)dt;
    Mat want = p.exact_rho(0, 0, r0, 0, T, M_COH | M_GS); ld swant = p.exact_scalar(0, 0, s0, 0, T, M_COH | M_GS);
    ld err = maxabs(toM(comps(S.rho(0, 0)), 2) - want), serr = fabsl((ld)S.scalar(0, 0) - swant);
    ld tol = fixed ? 1e-5L : 2e-7L;
    CHECK(err <= tol && serr <= tol, "C10|state-differs-from-piecewise-exact-propagation", "regression: t_ini=%g %s: 64 calls of Evolve(2^-7): rho error %.3Lg scalar error %.3Lg", ti, fixed ? "fixed" : "adaptive", err, serr);
  }
}
