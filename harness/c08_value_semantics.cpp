// C08 - vectors have value semantics: copies are independent, moves leave a safe source
#include "common/lib.h"
#include "common/ledger.h"

const char* PROPERTY = "C08";
const int LMAX = 260;
const char* RULE =
    "stateful, model-based: byte strings decoded into histories of up to 40 operations over a pool of 6 vector slots and 3 exact-size user "
    "buffers: default/sized/list/matrix/aligned/factory/external construction, copy/move construction, copy/move assignment (incl. self), "
    "assignment and construction from element-wise expressions with every operand value category (a+b, move(a)+b, a+move(b), move(a)+move(b), "
    "move(a)-b, -move(a), move(a)*s, s*move(a), four ElementwiseProduct overloads) and from a commutator, += / -=, SetBackingStore, component "
    "writes, comparison, destruction, clear_mem_cache. Oracle: a model of every slot (absent / empty / owned(d,values) / external(d,buffer) / "
    "unspecified-after-move) and buffer; after EVERY step each specified live vector equals its model component by component, owned ranges are "
    "pairwise disjoint and disjoint from user buffers, external vectors address exactly their buffer, user buffers hold exactly the modelled "
    "contents, no foreign or double delete[] reached the allocator; a consumed source is only required to tolerate assignment, comparison, a second "
    "move and destruction without changing any other live vector. Non-trivial: the history contains a move or an rvalue-consuming expression "
    "whose thief is still alive when a later operation writes to or reads the consumed source; distinct by digest of consumed bytes.";
void harness_init() { quiet_gsl(); }

enum Kind { EMPTY, OWNED, EXT };
struct Slot {
  std::unique_ptr<SU_vector> v;
  bool spec = true; bool ext_origin = false;  // for unspecified slots: may still alias a user buffer
  Kind kind = EMPTY; int buf = -1; int d = 0; std::vector<double> vals;
  bool consumed_with_live_thief = false; int thief = -1;
};
static const int NS = 6, NB = 3, BUFN = 36;
struct World {
  Slot s[NS];
  double* buf[NB];
  std::vector<double> bm[NB];  // model of buffer contents
  std::string log;
  bool nontrivial = false;
  int moves = 0;
  uint64_t bad0 = 0;  // foreign/double delete[] count before this history
};
struct EwOp { double operator()(double a, double b) const { return a * b; } };
// a user operation that fails in the middle of the evaluation (after k element pairs)
struct ThrowAfter { int* n; int k; double operator()(double a, double b) const { if ((*n)++ >= k) throw std::runtime_error("user operation failed"); return a * b; } };

static std::vector<double>& mvals(World& w, Slot& s) { return s.kind == EXT ? w.bm[s.buf] : s.vals; }
static void fail_ctx(World& w, const std::string& sig, const std::string& msg) { throw Fail(sig, msg + " :: history: " + w.log); }

static void check_world(World& w, const char* after) {
  if (ledger::bad_delete_count() != w.bad0) fail_ctx(w, "C08|foreign-or-double-delete", fmt("delete[] of a pointer the allocator does not hold (%p) after %s", ledger::last_bad, after));
  for (int b = 0; b < NB; b++) for (int k = 0; k < BUFN; k++)
    if (!bit_equal(w.buf[b][k], w.bm[b][k])) fail_ctx(w, "C08|user-buffer-content", fmt("buffer %d[%d] = %.17g, model %.17g after %s", b, k, w.buf[b][k], w.bm[b][k], after));
  for (int i = 0; i < NS; i++) {
    Slot& s = w.s[i];
    if (!s.v || !s.spec) continue;
    if (s.kind == EMPTY) { if (s.v->Dim() != 0 || s.v->Size() != 0) fail_ctx(w, "C08|empty-vector-has-size", fmt("slot %d dim %u after %s", i, s.v->Dim(), after)); continue; }
    if ((int)s.v->Dim() != s.d || (int)s.v->Size() != s.d * s.d) fail_ctx(w, "C08|dimension-differs-from-model", fmt("slot %d dim=%u size=%u model d=%d after %s", i, s.v->Dim(), s.v->Size(), s.d, after));
    if (s.d == 0) continue;
    const double* p = &(*s.v)[0];
    if (s.kind == EXT) { if (p != w.buf[s.buf]) fail_ctx(w, "C08|external-vector-not-on-its-buffer", fmt("slot %d addresses %p, buffer %d is %p after %s", i, (const void*)p, s.buf, (void*)w.buf[s.buf], after)); }
    else {
      for (int b = 0; b < NB; b++) if (p < w.buf[b] + BUFN && w.buf[b] < p + s.d * s.d) fail_ctx(w, "C08|owned-vector-inside-user-buffer", fmt("slot %d overlaps buffer %d after %s", i, b, after));
      for (int j = 0; j < i; j++) {
        Slot& t = w.s[j];
        if (!t.v || !t.spec || t.kind != OWNED || t.d == 0) continue;
        const double* q = &(*t.v)[0];
        if (p < q + t.d * t.d && q < p + s.d * s.d) fail_ctx(w, "C08|two-vectors-share-storage", fmt("slots %d and %d overlap after %s", j, i, after));
      }
    }
    const std::vector<double>& m = mvals(w, s);
    for (int k = 0; k < s.d * s.d; k++)
      if (!bit_equal((*s.v)[k], m[k])) fail_ctx(w, std::string("C08|value-differs-from-model|after-") + after, fmt("slot %d[%d] = %.17g, model %.17g (d=%d kind=%d)", i, k, (*s.v)[k], m[k], s.d, (int)s.kind));
  }
}
static void make_unspecified(World& w, int j, int thief) {
  Slot& s = w.s[j];
  s.ext_origin = s.kind == EXT;
  s.spec = false; s.thief = thief; s.consumed_with_live_thief = true; s.vals.clear();
  w.moves++;
}
static void touch_consumed(World& w, int j) {  // a later op reads/writes a consumed source
  Slot& s = w.s[j];
  if (!s.spec && s.consumed_with_live_thief && s.thief >= 0 && w.s[s.thief].v) w.nontrivial = true;
}
// after an operation that may have stolen storage of an external rvalue operand: classify the result by observation
static void classify_result(World& w, int i, int d, const std::vector<double>& vals, const std::vector<int>& ext_candidates) {
  Slot& t = w.s[i];
  t.spec = true; t.d = d; t.ext_origin = false; t.consumed_with_live_thief = false;
  const double* p = d ? &(*t.v)[0] : nullptr;
  for (int b : ext_candidates) if (p == w.buf[b]) {  // derived by move from a vector bound to that buffer: sharing is allowed
    t.kind = EXT; t.buf = b; t.vals.clear();
    for (int k = 0; k < d * d; k++) w.bm[b][k] = vals[k];
    return;
  }
  t.kind = d ? OWNED : EMPTY; t.buf = -1; t.vals = vals;
}

void run_case(ByteSource& bs, CaseInfo& ci) {
  World w;
  w.bad0 = ledger::bad_delete_count();
  for (int b = 0; b < NB; b++) { w.buf[b] = (double*)malloc(sizeof(double) * BUFN); w.bm[b].resize(BUFN); for (int k = 0; k < BUFN; k++) w.bm[b][k] = w.buf[b][k] = 1000.0 * (b + 1) + k; }
  struct Cleanup { World& w; ~Cleanup() { for (int i = 0; i < NS; i++) w.s[i].v.reset(); for (int b = 0; b < NB; b++) free(w.buf[b]); SU_vector::clear_mem_cache(); } } cleanup{w};
  int nops = 1 + (int)bs.choose(40);
  auto specified_nonempty = [&](int j) { return w.s[j].v && w.s[j].spec && w.s[j].kind != EMPTY && w.s[j].d > 0; };
  for (int step = 0; step < nops && !bs.exhausted(); step++) {
    unsigned op = bs.choose(19);
    if (op == 18 && bs.tail_choose(2) == 1) op = 19;  // (op 19 was added later: chosen through a tail byte so that saved cases keep their decoding)
    // construction, not rejection: slots are drawn among those that satisfy the operation's precondition
    auto pick = [&](int need) -> int {  // 0 absent, 1 live, 2 live specified, 3 specified non-empty, 4 any, 5 specified empty
      int cand[NS], n = 0;
      for (int q = 0; q < NS; q++) {
        bool ok = need == 4 || (need == 5 && w.s[q].v && w.s[q].spec && w.s[q].kind == EMPTY) || (need == 0 && !w.s[q].v) || (need == 1 && w.s[q].v) || (need == 2 && w.s[q].v && w.s[q].spec) || (need == 3 && specified_nonempty(q));
        if (ok) cand[n++] = q;
      }
      unsigned r = bs.choose(NS);
      return n ? cand[r % n] : (int)r;
    };
    static const int NEED_I[20] = {0, 0, 0, 0, 0, 0, 0, 1, 1, 1, 0, 3, 3, 3, 3, 1, 4, 1, 4, 4};
    static const int NEED_J[20] = {4, 4, 4, 4, 4, 2, 1, 2, 1, 3, 3, 3, 3, 4, 4, 4, 4, 1, 4, 5};
    static const int NEED_K[20] = {4, 4, 4, 4, 4, 4, 4, 4, 4, 3, 3, 4, 4, 4, 4, 4, 4, 4, 4, 5};
    int i = pick(NEED_I[op]), j = pick(NEED_J[op]), k = pick(NEED_K[op]);
    if ((op == 9 || op == 10 || op == 11 || op == 12) && specified_nonempty(j)) {  // prefer a second operand of the same dimension
      int cand[NS], n = 0;
      for (int q = 0; q < NS; q++) if (specified_nonempty(q) && w.s[q].d == w.s[j].d) cand[n++] = q;
      if (op == 11 || op == 12) { if (!(specified_nonempty(i) && w.s[i].d == w.s[j].d) && n) i = cand[bs.choose(n)]; }
      else if (!(specified_nonempty(k) && w.s[k].d == w.s[j].d) && n) k = cand[bs.choose(n)];
    }
    char nm[96]; nm[0] = 0;
    Slot &S = w.s[i], &J = w.s[j], &K = w.s[k];
    switch (op) {
      case 0: if (S.v) continue; S = Slot(); S.v.reset(new SU_vector()); snprintf(nm, sizeof nm, "s%d=default", i); break;
      case 1: { if (S.v) continue; int d = gen_dim(bs); S = Slot(); S.v.reset(new SU_vector(d)); S.kind = OWNED; S.d = d; S.vals.assign(d * d, 0.0); snprintf(nm, sizeof nm, "s%d=sized(%d)", i, d); break; }
      case 2: { if (S.v) continue; int d = gen_dim(bs); std::vector<double> c(d * d); for (auto& x : c) x = bs.dense(); S = Slot(); S.v.reset(new SU_vector(c)); S.kind = OWNED; S.d = d; S.vals = c; snprintf(nm, sizeof nm, "s%d=list(%d)", i, d); break; }
      case 3: {
        if (S.v) continue; int d = gen_dim(bs);
        unsigned f = bs.choose(4);
        S = Slot();
        if (f == 0) { GslMat g(gen_hermitian(bs, d, 4)); S.v.reset(new SU_vector(g.m)); }
        else if (f == 1) S.v.reset(new SU_vector(SU_vector::make_aligned(d)));
        else if (f == 2) S.v.reset(new SU_vector(SU_vector::Projector(d, bs.choose(d))));
        else S.v.reset(new SU_vector(SU_vector::Generator(d, bs.u8() % (d * d))));
        S.kind = OWNED; S.d = d; S.vals = comps(*S.v);
        snprintf(nm, sizeof nm, "s%d=factory%u(%d)", i, f, d); break;
      }
      case 4: { if (S.v) continue; int d = gen_dim(bs); int b = (int)bs.choose(NB); S = Slot(); S.v.reset(new SU_vector(d, w.buf[b])); S.kind = EXT; S.buf = b; S.d = d; snprintf(nm, sizeof nm, "s%d=external(%d,buf%d)", i, d, b); break; }
      case 5: {  // copy construct
        if (S.v || !J.v || !J.spec) continue;
        S = Slot(); S.v.reset(new SU_vector(*J.v));
        if (J.kind == EMPTY) S.kind = EMPTY; else { S.kind = OWNED; S.d = J.d; S.vals = mvals(w, J); S.vals.resize(J.d * J.d); }
        snprintf(nm, sizeof nm, "s%d=copy(s%d)", i, j); break;
      }
      case 6: {  // move construct
        if (S.v || !J.v || i == j) continue;
        touch_consumed(w, j);
        bool jspec = J.spec; Kind jk = J.kind; int jb = J.buf, jd = J.d; std::vector<double> jv = J.vals; bool jext = J.ext_origin;
        S = Slot(); S.v.reset(new SU_vector(std::move(*J.v)));
        if (!jspec) { S.spec = false; S.ext_origin = jext; }
        else { S.kind = jk; S.buf = jb; S.d = jd; S.vals = jv; make_unspecified(w, j, i); }
        snprintf(nm, sizeof nm, "s%d=move(s%d)", i, j); break;
      }
      case 7: {  // copy assign (incl. self)
        if (!S.v || !J.v || !J.spec) continue;
        if (!S.spec && S.ext_origin) continue;  // a moved-from externally backed vector is only destroyed/compared/moved here
        if (J.kind == EMPTY && i != j) continue;  // copying an empty vector: value trivially equal; storage side judged by C15
        touch_consumed(w, i);
        bool must_throw = S.spec && S.kind == EXT && i != j && S.d != J.d;
        std::vector<double> src = mvals(w, J); src.resize(J.d * J.d);
        bool threw = false;
        try { *S.v = *J.v; } catch (const std::runtime_error&) { threw = true; }
        snprintf(nm, sizeof nm, "s%d=s%d%s", i, j, threw ? "(threw)" : "");
        w.log += nm; w.log += "; ";
        if (threw != must_throw) fail_ctx(w, "C08|copy-assign|exception-policy", fmt("threw=%d expected=%d", (int)threw, (int)must_throw));
        if (!threw && i != j) {
          if (S.spec && S.kind == EXT) { for (int q = 0; q < J.d * J.d; q++) w.bm[S.buf][q] = src[q]; }
          else { S.spec = true; S.ext_origin = false; S.consumed_with_live_thief = false; S.kind = OWNED; S.buf = -1; S.d = J.d; S.vals = src; }
        }
        check_world(w, "copy-assign"); continue;
      }
      case 8: {  // move assign (incl. self)
        if (!S.v || !J.v) continue;
        if (!S.spec && S.ext_origin) continue;
        touch_consumed(w, i); touch_consumed(w, j);
        if (i == j) { *S.v = std::move(*S.v); snprintf(nm, sizeof nm, "s%d=move(self)", i); break; }
        if (!S.spec) {  // target unspecified (self-origin): whatever it holds is released or swapped away; result takes J's value
          if (!J.spec) { *S.v = std::move(*J.v); S.ext_origin = S.ext_origin || J.ext_origin; snprintf(nm, sizeof nm, "s%d(unspec)=move(s%d unspec)", i, j); break; }
          Kind jk = J.kind; int jb = J.buf, jd = J.d; std::vector<double> jv = mvals(w, J); jv.resize(jd * jd);
          *S.v = std::move(*J.v);
          classify_result(w, i, jd, jv, jk == EXT ? std::vector<int>{jb} : std::vector<int>{});
          if (jk == EMPTY) { S.kind = EMPTY; S.d = 0; }
          make_unspecified(w, j, i);
          snprintf(nm, sizeof nm, "s%d(unspec)=move(s%d)", i, j); break;
        }
        if (!J.spec) { // moving an unspecified value in: target becomes unspecified, unless it is externally backed (then it may have been overwritten or thrown)
          if (S.kind == EXT) continue;
          *S.v = std::move(*J.v); S.spec = false; S.ext_origin = J.ext_origin; S.vals.clear(); S.consumed_with_live_thief = false;
          snprintf(nm, sizeof nm, "s%d=move(s%d unspec)", i, j); break;
        }
        if (S.kind == EXT) {  // copies, or throws on size mismatch
          bool must_throw = S.d != J.d;
          std::vector<double> src = mvals(w, J); src.resize(J.d * J.d);
          bool threw = false;
          try { *S.v = std::move(*J.v); } catch (const std::runtime_error&) { threw = true; }
          snprintf(nm, sizeof nm, "s%d(ext)=move(s%d)%s", i, j, threw ? "(threw)" : "");
          w.log += nm; w.log += "; ";
          if (threw != must_throw) fail_ctx(w, "C08|move-assign-to-external|exception-policy", fmt("threw=%d expected=%d", (int)threw, (int)must_throw));
          if (!threw) for (int q = 0; q < J.d * J.d; q++) w.bm[S.buf][q] = src[q];
          // the source is still specified if the call threw; after a successful call it is a moved-from object
          if (!threw && !(J.kind == EXT && J.buf == S.buf)) make_unspecified(w, j, i);
          check_world(w, "move-assign-to-external"); continue;
        }
        {
          Kind jk = J.kind; int jb = J.buf, jd = J.d; std::vector<double> jv = mvals(w, J); jv.resize(jd * jd);
          *S.v = std::move(*J.v);
          classify_result(w, i, jd, jv, jk == EXT ? std::vector<int>{jb} : std::vector<int>{});
          if (jk == EMPTY) { S.kind = EMPTY; S.d = 0; S.vals.clear(); }
          make_unspecified(w, j, i);
          snprintf(nm, sizeof nm, "s%d=move(s%d)", i, j);
        }
        break;
      }
      case 9: case 10: {  // assignment (9) / construction (10) from an expression
        bool construct = op == 10;
        if (construct ? (bool)S.v : !S.v) continue;
        if (!construct && !S.spec && S.ext_origin) continue;
        if (!specified_nonempty(j) || !specified_nonempty(k) || J.d != K.d) continue;
        unsigned form = bs.choose(13);
        bool mj = false, mk = false, unary = false;
        switch (form) { case 1: case 4: case 5: case 6: case 7: case 9: mj = true; break; case 2: case 10: mk = true; break; case 3: case 11: mj = mk = true; break; default: break; }
        if (form == 5 || form == 6 || form == 7) unary = true;
        // (tail byte) the expression is an element-wise operation whose user functor throws part way: whatever storage changed hands must
        // end up with exactly one owner, and a user buffer must not reach the allocator
        bool throwing = bs.tail_at(40) % 6 == 1;
        if (throwing) { form = 13; mj = true; mk = false; unary = false; }
        if (mj && mk && j == k) continue;
        if (unary) mk = false;
        double sc = bs.num(6);
        int d = J.d;
        std::vector<double> a = mvals(w, J), b = mvals(w, K); a.resize(d * d); b.resize(d * d);
        std::vector<double> r(d * d);
        for (int q = 0; q < d * d; q++) switch (form) {
          case 0: case 1: case 2: case 3: r[q] = a[q] + b[q]; break;
          case 4: r[q] = a[q] - b[q]; break;
          case 5: r[q] = -a[q]; break;
          case 6: case 7: r[q] = sc * a[q]; break;
          case 8: case 9: case 10: case 11: r[q] = a[q] * b[q]; break;
          default: r[q] = 0; break;
        }
        if (form == 12) {  // non-element-wise: commutator through fresh copies
          SU_vector ca = *J.v, cb = *K.v;
          SU_vector rr(squids::iCommutator(ca, cb));
          r = comps(rr);
        }
        if (!construct) touch_consumed(w, i);
        bool target_ext = !construct && S.spec && S.kind == EXT;
        bool must_throw = (target_ext && S.d != d) || throwing;
        int calls = 0, kthrow = throwing ? (int)(bs.tail_at(41) % (unsigned)(d * d)) : 0;
        bool alias_ext = target_ext && ((J.kind == EXT && J.buf == S.buf) || (K.kind == EXT && K.buf == S.buf));
        (void)alias_ext;
        SU_vector &A = *J.v, &B = *K.v;
        bool threw = false;
        try {
#define EXPR_SWITCH(ASSIGN)                                                                              \
  switch (form) {                                                                                       \
    case 0: ASSIGN(A + B); break;                                                                        \
    case 1: ASSIGN(std::move(A) + B); break;                                                             \
    case 2: ASSIGN(A + std::move(B)); break;                                                             \
    case 3: ASSIGN(std::move(A) + std::move(B)); break;                                                  \
    case 4: ASSIGN(std::move(A) - B); break;                                                             \
    case 5: ASSIGN(-std::move(A)); break;                                                                \
    case 6: ASSIGN(std::move(A) * sc); break;                                                            \
    case 7: ASSIGN(sc * std::move(A)); break;                                                            \
    case 8: ASSIGN(squids::ElementwiseProduct(A, B)); break;                                             \
    case 9: ASSIGN(squids::ElementwiseProduct(std::move(A), B)); break;                                  \
    case 10: ASSIGN(squids::ElementwiseProduct(A, std::move(B))); break;                                 \
    case 11: ASSIGN(squids::ElementwiseProduct(std::move(A), std::move(B))); break;                      \
    case 12: ASSIGN(squids::iCommutator(A, B)); break;                                                   \
    default: ASSIGN(squids::ElementwiseOperation(ThrowAfter{&calls, kthrow}, std::move(A), B)); break;   \
  }
#define DO_ASSIGN(E) (*S.v = (E))
#define DO_CONSTRUCT(E) S.v.reset(new SU_vector(E))
          if (construct) { S = Slot(); EXPR_SWITCH(DO_CONSTRUCT) } else { EXPR_SWITCH(DO_ASSIGN) }
        } catch (const std::runtime_error&) { threw = true; }
        snprintf(nm, sizeof nm, "s%d%sexpr%u(s%d%s,s%d%s)%s", i, construct ? ":=" : "=", form, j, mj ? "&&" : "", k, mk ? "&&" : "", threw ? "(threw)" : "");
        w.log += nm; w.log += "; ";
        if (threw != must_throw) fail_ctx(w, "C08|expression-assign|exception-policy", fmt("threw=%d expected=%d", (int)threw, (int)must_throw));
        if (threw && throwing) {
          // the evaluation may have run in place in the operand's storage: its values (and those of a user buffer it is bound to) are
          // whatever the interrupted evaluation left; operand and target are valid but unspecified from here on
          ci.label("user-operation-throws");
          if (J.kind == EXT) for (int q = 0; q < BUFN; q++) w.bm[J.buf][q] = w.buf[J.buf][q];
          bool jext = J.kind == EXT || J.ext_origin;
          if (j != i) make_unspecified(w, j, i);
          if (construct) S = Slot();
          else { if (S.kind == EXT) for (int q = 0; q < BUFN; q++) w.bm[S.buf][q] = w.buf[S.buf][q]; bool sext = S.kind == EXT || S.ext_origin || jext; S.spec = false; S.ext_origin = sext; S.vals.clear(); S.consumed_with_live_thief = false; }
        }
        if (!threw) {
          std::vector<int> cand;
          if (mj && J.kind == EXT) cand.push_back(J.buf);
          if (mk && K.kind == EXT) cand.push_back(K.buf);
          if (target_ext) { for (int q = 0; q < d * d; q++) w.bm[S.buf][q] = r[q]; }
          else classify_result(w, i, d, r, cand);
          // consumed operands (a target that is also an lvalue operand keeps its new value)
          if (mj && j != i) make_unspecified(w, j, i);
          if (mk && k != i && !unary) make_unspecified(w, k, i);
        }
        check_world(w, "expression"); continue;
      }
      case 11: case 12: {  // += / -=
        if (!specified_nonempty(i) || !specified_nonempty(j) || S.d != J.d) continue;
        std::vector<double>& t = mvals(w, S); std::vector<double> src = mvals(w, J);
        for (int q = 0; q < S.d * S.d; q++) t[q] = op == 11 ? t[q] + src[q] : t[q] - src[q];
        if (op == 11) *S.v += *J.v; else *S.v -= *J.v;
        snprintf(nm, sizeof nm, "s%d%s=s%d", i, op == 11 ? "+" : "-", j); break;
      }
      case 13: {  // SetBackingStore
        if (!specified_nonempty(i)) continue;
        int b = (int)bs.choose(NB);
        S.v->SetBackingStore(w.buf[b]);
        S.kind = EXT; S.buf = b; S.vals.clear();
        snprintf(nm, sizeof nm, "s%d.SetBackingStore(buf%d)", i, b); break;
      }
      case 14: {  // component write
        if (!specified_nonempty(i)) continue;
        int q = (int)(bs.u8() % (S.d * S.d)); double x = bs.num(6);
        (*S.v)[q] = x; mvals(w, S)[q] = x;
        snprintf(nm, sizeof nm, "s%d[%d]=x", i, q); break;
      }
      case 15: if (!S.v) continue; touch_consumed(w, i); S = Slot(); snprintf(nm, sizeof nm, "destroy(s%d)", i); break;
      case 16: SU_vector::clear_mem_cache(); snprintf(nm, sizeof nm, "clear_mem_cache"); break;
      case 19: {  // an element-wise expression whose operands are empty vectors (default constructed, or moved from and so "moved from again" by the
        // expression): either a library exception or an empty result; no other vector is affected
        if (!J.v || !J.spec || J.kind != EMPTY || !K.v || !K.spec || K.kind != EMPTY) continue;
        bool construct = !S.v;
        if (!construct && (!S.spec || S.kind == EXT || i == j || i == k)) continue;
        unsigned form = bs.choose(8);
        SU_vector &A = *J.v, &B = *K.v;
        bool threw = false;
        try {
#define EMPTY_SWITCH(ASSIGN)                                                \
  switch (form) {                                                          \
    case 0: ASSIGN(A + B); break;                                           \
    case 1: ASSIGN(std::move(A) + B); break;                                \
    case 2: ASSIGN(A - B); break;                                           \
    case 3: ASSIGN(-A); break;                                              \
    case 4: ASSIGN(-std::move(A)); break;                                   \
    case 5: ASSIGN(std::move(A) * 2.0); break;                              \
    case 6: ASSIGN(A * 2.0); break;                                         \
    default: ASSIGN(squids::ElementwiseProduct(A, B)); break;               \
  }
          if (construct) { S = Slot(); EMPTY_SWITCH(DO_CONSTRUCT) } else { EMPTY_SWITCH(DO_ASSIGN) }
        } catch (const std::exception&) { threw = true; }
        snprintf(nm, sizeof nm, "s%d%sexpr-of-empties%u(s%d,s%d)%s", i, construct ? ":=" : "=", form, j, k, threw ? "(threw)" : "");
        if (!threw) {
          if (S.v && S.v->Dim() != 0) { w.log += nm; fail_ctx(w, "C08|expression-of-empty-operands|non-empty-result", fmt("dimension %u", S.v->Dim())); }
          if (S.v) { S.spec = true; S.kind = EMPTY; S.d = 0; S.buf = -1; S.vals.clear(); S.ext_origin = false; S.consumed_with_live_thief = false; }
        } else if (construct) { S = Slot(); }
        else { w.log += nm; w.log += "; "; check_world(w, nm); continue; }  // a rejected assignment leaves the target as it was
        ci.label("expression-of-empty-operands");
        break;
      }
      case 17: {  // comparison
        if (!S.v || !J.v) continue;
        touch_consumed(w, i); touch_consumed(w, j);
        bool got = *S.v == *J.v;
        snprintf(nm, sizeof nm, "s%d==s%d", i, j);
        if (specified_nonempty(i) && specified_nonempty(j)) {
          bool want = S.d == J.d;
          if (want) { const std::vector<double>&x = mvals(w, S), &y = mvals(w, J); for (int q = 0; q < S.d * S.d; q++) if (!(x[q] == y[q])) want = false; }
          if (got != want) { w.log += nm; fail_ctx(w, "C08|equality|wrong-answer", fmt("got %d want %d", (int)got, (int)want)); }
        }
        break;
      }
      default: {  // write through a user buffer directly (the user owns it)
        int b = (int)bs.choose(NB); int q = (int)bs.choose(BUFN); double x = bs.num(6);
        w.buf[b][q] = x; w.bm[b][q] = x;
        snprintf(nm, sizeof nm, "buf%d[%d]=x", b, q); break;
      }
    }
    w.log += nm; w.log += "; ";
    check_world(w, nm);
  }
  // everything is destroyed; nothing may reach the allocator that it does not hold
  for (int i = 0; i < NS; i++) w.s[i].v.reset();
  SU_vector::clear_mem_cache();
  if (ledger::bad_delete_count() != w.bad0) fail_ctx(w, "C08|foreign-or-double-delete", fmt("at final destruction (%p)", ledger::last_bad));
  for (int b = 0; b < NB; b++) for (int k = 0; k < BUFN; k++)
    if (!bit_equal(w.buf[b][k], w.bm[b][k])) fail_ctx(w, "C08|user-buffer-content", fmt("buffer %d[%d] changed during destruction", b, k));
  ci.nontrivial = w.nontrivial;
  ci.label(w.moves ? "has-move" : "no-move"); if (w.nontrivial) ci.label("consumed-source-reused-with-live-thief");
  ci.sample = w.log;
}
void enumerate(const Emit&, const std::string&) {}

// fixed finding 041ada4: a consumed rvalue operand kept pointing at the storage taken from it
void regressions() {
  for (int d = 2; d <= 6; d++) for (int form = 0; form < 3; form++) {
    std::vector<double> c(d * d); for (int i = 0; i < d * d; i++) c[i] = 1.0 + i;
    SU_vector a(c), b(c);
    std::unique_ptr<SU_vector> t;
    if (form == 0) t.reset(new SU_vector(std::move(a) + b));
    else if (form == 1) { t.reset(new SU_vector()); *t = std::move(a) + b; }
    else { t.reset(new SU_vector(2 + (d - 1) % 5)); *t = squids::ElementwiseProduct(b, std::move(a)); }
    std::vector<double> tv = comps(*t);
    SU_vector other(d); other.SetAllComponents(-9.0);
    a = other;   // must not write into t's storage
    CHECK(comps(*t) == tv, "C08|two-vectors-share-storage", "regression: assigning to a consumed operand changed the result (d=%d form=%d)", d, form);
    CHECK(a.Dim() == (unsigned)d && &a[0] != &(*t)[0], "C08|two-vectors-share-storage", "regression: consumed operand and result share storage (d=%d form=%d)", d, form);
  }
  // 6ce9f36: a user operation that throws in the middle of a resizing, storage-taking assignment: the operand must not keep the block
  for (int d = 2; d <= 6; d++) {
    std::vector<double> c(d * d); for (int i = 0; i < d * d; i++) c[i] = 1.0 + i;
    SU_vector a(c), b(c), t(2 + (d - 1) % 5);
    int calls = 0; bool threw = false;
    try { t = squids::ElementwiseOperation(ThrowAfter{&calls, d}, std::move(a), b); } catch (const std::runtime_error&) { threw = true; }
    CHECK(threw, "C08|expression-assign|exception-policy", "regression: the user operation's exception did not propagate (d=%d)", d);
    CHECK(a.Dim() == 0 || &a[0] != &t[0], "C08|two-vectors-share-storage", "regression: after the failed assignment operand and target share a block (d=%d)", d);
    SU_vector other(d); other.SetAllComponents(-9.0); std::vector<double> tv = comps(t);
    a = other;
    CHECK(comps(t) == tv, "C08|two-vectors-share-storage", "regression: writing to the consumed operand changed the target (d=%d)", d);
  }
  // e0e8929: element-wise expressions over empty operands (null dereference at -O2)
  {
    SU_vector a(3); SU_vector b(std::move(a));
    SU_vector c = std::move(a) * 2.0; SU_vector e1, e2, x(2);
    x = e1 + e2; SU_vector y(-e1); x = squids::ElementwiseProduct(e1, e2); x = e1 - e2;
    CHECK(c.Dim() == 0 && x.Dim() == 0 && y.Dim() == 0 && b.Dim() == 3, "C08|expression-of-empty-operands|non-empty-result", "regression");
  }
}
