// C19 - the shared block cache hands every cached block to at most one taker
// detail::cache<T,N> is instantiated directly from the current header in both configurations; in the shared (no
// thread-local) configuration its atomics are re-pointed at an instrumented look-alike whose every operation is a
// scheduling point of a harness-owned scheduler (real threads passing a baton: exactly one is runnable).
#define HARNESS_MAIN_THREAD_CASES 1  // this harness owns its threads and per-thread baselines
#include <atomic>
#include <cstdint>
#include <cstddef>
#include <thread>
#include <mutex>
#include <condition_variable>
#include <vector>
#include <string>
#include <algorithm>
#include <new>
#include <cstring>
#include "common/harness.h"

namespace c19 { void sched_point(const char* what); bool spurious_failure(); }
namespace std {
template <class T> struct verif_atomic {
  T value;
  verif_atomic() : value() {}
  T load() { c19::sched_point("load"); T v = value; c19::sched_point("after-load"); return v; }
  void store(T v) { c19::sched_point("store"); value = v; c19::sched_point("after-store"); }
};
template <class T> bool verif_cas(verif_atomic<T>* a, T* expected, T desired) {
  c19::sched_point("cas");
  bool ok;
  if (memcmp(&a->value, expected, sizeof(T)) == 0) {
    if (c19::spurious_failure()) ok = false;  // compare_exchange_weak may fail spuriously
    else { a->value = desired; ok = true; }
  } else { *expected = a->value; ok = false; }
  c19::sched_point("after-cas");
  return ok;
}
}  // namespace std
// ---- shared configuration ------------------------------------------------------------------
#ifdef SQUIDS_THREAD_LOCAL
#undef SQUIDS_THREAD_LOCAL
#endif
#define atomic verif_atomic
#define atomic_compare_exchange_weak verif_cas
#include <SQuIDS/detail/Cache.h>
#undef atomic
#undef atomic_compare_exchange_weak
// ---- thread-local configuration (plain, single-threaded use) -----------------------------------
#undef SQUIDS_CACHE_H
#define SQUIDS_THREAD_LOCAL thread_local
#define squids squids_tl
#include <SQuIDS/detail/Cache.h>
#undef squids
#undef SQUIDS_THREAD_LOCAL

const char* PROPERTY = "C19";
const int LMAX = 120;
const char* RULE =
    "enum: all schedules with at most P preemptions (P=2 quick, 3 thorough) at atomic-operation granularity (a context switch is possible "
    "before and after every load/store/compare-exchange, so the plain reads and writes between two atomic operations form their own step) for "
    "2 threads x all programs of 1..2 (quick) / 1..3 (thorough) insert/get operations per thread x capacity N in 1..2 (quick) / 1..3 (thorough), "
    "with 0..N blocks cached beforehand, plus operation-pool schedules (every operation a thread of its own, up to 6 operations, at most two of "
    "them parked at any of their first 9 scheduling points and resumed after 0..n-1 further completions; quick: two parkings for up to 3 "
    "operations, one for 5-6) [bounded-exhaustive]; pbt: random programs (up to 4 ops, 2..3 threads, N=1..4), random preemption "
    "points and spurious compare_exchange_weak failures; sequential histories in both configurations against a bounded LIFO model. Oracle "
    "(history invariants): every id returned by a fetch was successfully inserted, no id is returned twice, a failed insert's id is never "
    "returned (the block stays with its caller), and at quiescence a single-threaded drain returns exactly the ids inserted and not fetched; "
    "sequentially: insert fails iff full, fetch fails iff empty, LIFO order. Non-trivial: a schedule with at least one preemption inside an "
    "operation while another thread completes an operation on the same cache; distinct by digest of (N, programs, schedule).";
void harness_init() {}

struct Val { int id; Val() : id(0) {} explicit Val(int i) : id(i) {} };

namespace c19 {
struct Sched {
  std::mutex m; std::condition_variable cv;
  int turn = -1;                 // thread allowed to run; -1: controller
  int nthreads = 0;
  std::vector<bool> done, in_op;
  long point = 0;                // global count of scheduling points
  std::vector<std::pair<long, int>> preempt;  // (point number, target thread), sorted
  std::vector<long> spurious;    // CAS ordinals that fail spuriously
  long cas_count = 0;
  size_t next_pre = 0;
  int preemptions_taken = 0;
  bool interesting = false;      // a preemption happened inside an operation and another thread then completed an operation
  std::vector<bool> preempted_inside;
  bool active = false;
};
static Sched* S = nullptr;
static thread_local int me = -1;
// ---- "operation pool" schedules: every operation is a thread of its own, started in index order. A thread may be parked once,
// at its p-th scheduling point, and is resumed after r further operations have completed. This is the most general history
// shape for this data structure (an operation's behaviour does not depend on which thread issues it): op-level order is
// free, and the number of simultaneously in-flight operations is bounded by the number of parkings.
struct Pool {
  std::mutex m; std::condition_variable cv;
  int n = 0, turn = -1; bool active = false;
  std::vector<char> started, done, parked; std::vector<int> points, park_at, resume_after, remaining;
  int parkings = 0; bool overlap = false;
  int next_to_run() {
    for (int k = 0; k < n; k++) if (parked[k] && remaining[k] <= 0) return k;
    for (int k = 0; k < n; k++) if (!started[k]) return k;
    int best = -1; for (int k = 0; k < n; k++) if (parked[k] && (best < 0 || remaining[k] < remaining[best])) best = k;
    return best;
  }
};
static Pool* PL = nullptr;
static void pool_point() {
  Pool& P = *PL;
  std::unique_lock<std::mutex> lk(P.m);
  int pc = ++P.points[me];
  if (P.park_at[me] == pc) {
    P.parked[me] = 1; P.remaining[me] = P.resume_after[me]; P.park_at[me] = -1; P.parkings++;
    int nxt = P.next_to_run();
    if (nxt == me) { P.parked[me] = 0; return; }   // nobody else can run
    P.turn = nxt; P.cv.notify_all();
    P.cv.wait(lk, [&] { return P.turn == me; });
    P.parked[me] = 0;
  }
}
static int pick_runnable(int start) { for (int k = 0; k < S->nthreads; k++) { int t = (start + k) % S->nthreads; if (!S->done[t]) return t; } return -1; }
void sched_point(const char*) {
  if (PL && PL->active && me >= 0) { pool_point(); return; }
  if (!S || !S->active || me < 0) return;
  std::unique_lock<std::mutex> lk(S->m);
  long p = S->point++;
  if (S->next_pre < S->preempt.size() && S->preempt[S->next_pre].first <= p) {
    int target = S->preempt[S->next_pre].second % S->nthreads;
    S->next_pre++;
    if (S->done[target] || target == me) target = pick_runnable((me + 1) % S->nthreads);
    if (target >= 0 && target != me) {
      S->preemptions_taken++;
      if (S->in_op[me]) S->preempted_inside[me] = true;
      S->turn = target; S->cv.notify_all();
      S->cv.wait(lk, [&] { return S->turn == me; });
    }
  }
}
bool spurious_failure() {
  if (!S || !S->active || me < 0) return false;
  long c = S->cas_count++;
  return std::find(S->spurious.begin(), S->spurious.end(), c) != S->spurious.end();
}
}  // namespace c19

// A cache object constructed in storage that is not zero-filled (what a stack slot or a reused heap block is): whatever the
// constructor does not initialise is garbage, as it may be for any non-static cache object.
template <typename C>
struct InDirtyStorage {
  alignas(64) unsigned char raw[sizeof(C)];
  C* c;
  InDirtyStorage() { std::memset(raw, 0xA5, sizeof raw); c = new (raw) C(); }
  ~InDirtyStorage() { c->~C(); }
  C& get() { return *c; }
};
struct Op { bool insert; int id; bool ok; int got; };
struct Program { std::vector<Op> ops; };

template <unsigned N>
static void run_concurrent(std::vector<Program>& progs, int prefill, c19::Sched& sc, std::vector<int>& drained) {
  InDirtyStorage<squids::detail::cache<Val, N>> holder; auto& cache = holder.get();
  for (int k = 0; k < prefill; k++) cache.insert(Val(1000 + k));  // single-threaded, scheduler inactive
  int nt = (int)progs.size();
  sc.nthreads = nt; sc.done.assign(nt, false); sc.in_op.assign(nt, false); sc.preempted_inside.assign(nt, false);
  c19::S = &sc;
  std::vector<std::thread> th;
  for (int t = 0; t < nt; t++) {
    th.emplace_back([&, t] {
      c19::me = t;
      { std::unique_lock<std::mutex> lk(sc.m); sc.cv.wait(lk, [&] { return sc.turn == t; }); }
      for (Op& op : progs[t].ops) {
        { std::unique_lock<std::mutex> lk(sc.m); sc.in_op[t] = true; }
        if (op.insert) op.ok = cache.insert(Val(op.id)); else { Val v = cache.get(); op.got = v.id; op.ok = v.id != 0; }
        { std::unique_lock<std::mutex> lk(sc.m); sc.in_op[t] = false; for (int o = 0; o < nt; o++) if (o != t && sc.preempted_inside[o] && !sc.done[o]) sc.interesting = true; }
      }
      std::unique_lock<std::mutex> lk(sc.m);
      sc.done[t] = true;
      int nxt = c19::pick_runnable((t + 1) % nt);
      sc.turn = nxt;  // -1 when everybody is done
      sc.cv.notify_all();
      c19::me = -1;
    });
  }
  { std::unique_lock<std::mutex> lk(sc.m); sc.active = true; sc.turn = 0; sc.cv.notify_all(); sc.cv.wait(lk, [&] { return sc.turn == -1; }); sc.active = false; }
  for (auto& t : th) t.join();
  c19::S = nullptr;
  // quiescent single-threaded drain
  for (int k = 0; k < (int)N + 8; k++) { Val v = cache.get(); if (v.id == 0) break; drained.push_back(v.id); }
}

template <unsigned N>
static void run_pool(std::vector<Op>& ops, int prefill, c19::Pool& P, std::vector<int>& drained) {
  InDirtyStorage<squids::detail::cache<Val, N>> holder; auto& cache = holder.get();
  for (int k = 0; k < prefill; k++) cache.insert(Val(1000 + k));
  int n = (int)ops.size();
  P.n = n; P.started.assign(n, 0); P.done.assign(n, 0); P.parked.assign(n, 0); P.points.assign(n, 0); P.remaining.assign(n, 0);
  c19::PL = &P;
  std::vector<std::thread> th;
  for (int t = 0; t < n; t++) th.emplace_back([&, t] {
    c19::me = t;
    { std::unique_lock<std::mutex> lk(P.m); P.cv.wait(lk, [&] { return P.turn == t; }); P.started[t] = 1; for (int o = 0; o < n; o++) if (P.parked[o]) P.overlap = true; }
    Op& op = ops[t];
    if (op.insert) op.ok = cache.insert(Val(op.id)); else { Val v = cache.get(); op.got = v.id; op.ok = v.id != 0; }
    std::unique_lock<std::mutex> lk(P.m);
    P.done[t] = 1;
    for (int o = 0; o < n; o++) if (P.parked[o]) P.remaining[o]--;
    P.turn = P.next_to_run();   // -1 when everything is done
    P.cv.notify_all();
    c19::me = -1;
  });
  { std::unique_lock<std::mutex> lk(P.m); P.active = true; P.turn = 0; P.started[0] = 0; P.cv.notify_all(); P.cv.wait(lk, [&] { return P.turn == -1; }); P.active = false; }
  for (auto& t : th) t.join();
  c19::PL = nullptr;
  // quiescent epilogue, issued by this one thread: the first drain's fetches, N+2 further inserts and a final drain are ordinary
  // operations of the same history, so a list left inconsistent by the concurrent phase (which fetches alone cannot show) surfaces
  for (int k = 0; k < (int)N + 8; k++) { Val v = cache.get(); if (v.id == 0) break; ops.push_back(Op{false, 0, true, v.id}); }
  for (int k = 0; k < (int)N + 2; k++) { Op o{true, 2000 + k, false, 0}; o.ok = cache.insert(Val(o.id)); ops.push_back(o); }
  for (int k = 0; k < (int)N + 8; k++) { Val v = cache.get(); if (v.id == 0) break; drained.push_back(v.id); }
}

static void check_history(unsigned N, int prefill, const std::vector<const Op*>& all, const std::vector<int>& drained, const std::string& ctx) {
  std::vector<int> inserted_ok, inserted_failed, fetched;
  for (int k = 0; k < prefill; k++) inserted_ok.push_back(1000 + k);
  for (const Op* op : all) { if (op->insert) (op->ok ? inserted_ok : inserted_failed).push_back(op->id); else if (op->got) fetched.push_back(op->got); }
  auto count = [](const std::vector<int>& v, int x) { return (int)std::count(v.begin(), v.end(), x); };
  for (int id : fetched) {
    CHECK(count(inserted_ok, id) == 1 || count(inserted_failed, id) == 1, fmt("C19|fetch-returned-unknown-id|N=%u", N), "id %d was never offered :: %s", id, ctx.c_str());
    CHECK(count(inserted_failed, id) == 0, fmt("C19|fetch-returned-id-of-failed-insert|N=%u", N), "id %d :: %s", id, ctx.c_str());
    CHECK(count(fetched, id) == 1, fmt("C19|block-handed-to-two-takers|N=%u", N), "id %d fetched %d times :: %s", id, count(fetched, id), ctx.c_str());
  }
  for (int id : drained) {
    CHECK(count(inserted_ok, id) == 1, fmt("C19|drain-returned-unknown-or-failed-id|N=%u", N), "id %d :: %s", id, ctx.c_str());
    CHECK(count(fetched, id) == 0, fmt("C19|block-handed-to-two-takers|N=%u", N), "id %d fetched during the run and again by the drain :: %s", id, ctx.c_str());
    CHECK(count(drained, id) == 1, fmt("C19|block-handed-to-two-takers|N=%u", N), "id %d drained twice :: %s", id, ctx.c_str());
  }
  for (int id : inserted_ok)
    CHECK(count(fetched, id) + count(drained, id) == 1, fmt("C19|inserted-block-lost|N=%u", N), "id %d was inserted successfully but neither fetched nor drained :: %s", id, ctx.c_str());
  CHECK(drained.size() <= N, fmt("C19|cache-holds-more-than-its-capacity|N=%u", N), "%zu blocks drained :: %s", drained.size(), ctx.c_str());
}

static void run_pool_case(ByteSource& s, CaseInfo& ci) {
  unsigned N = 1 + s.choose(4);
  int prefill = (int)s.choose(N + 1);
  int n = 1 + (int)s.choose(6);
  std::vector<Op> ops(n);
  std::string desc = fmt("pool N=%u prefill=%d ops:", N, prefill);
  int next_id = 1;
  for (int k = 0; k < n; k++) { ops[k].insert = s.choose(2) == 1; ops[k].id = ops[k].insert ? next_id++ : 0; ops[k].ok = false; ops[k].got = 0; desc += ops[k].insert ? fmt(" ins(%d)", ops[k].id) : std::string(" get"); }
  c19::Pool P;
  P.park_at.assign(n, -1); P.resume_after.assign(n, 0);
  int np = (int)s.choose(4);
  for (int q = 0; q < np; q++) { int t = (int)s.choose(n); int pt = 1 + (int)s.choose(12); int r = (int)s.choose(6); if (P.park_at[t] < 0) { P.park_at[t] = pt; P.resume_after[t] = r; desc += fmt(" | park op%d at point %d, resume after %d completions", t, pt, r); } }
  std::vector<int> drained;
  switch (N) { case 1: run_pool<1>(ops, prefill, P, drained); break; case 2: run_pool<2>(ops, prefill, P, drained); break; case 3: run_pool<3>(ops, prefill, P, drained); break; default: run_pool<4>(ops, prefill, P, drained); }
  std::string ctx = desc + " || result:";
  std::vector<const Op*> all;
  int epi_ok = 0;
  for (Op& op : ops) { all.push_back(&op); if (op.insert && op.id >= 2000 && op.ok) epi_ok++; ctx += op.insert ? fmt(" ins(%d)=%d", op.id, (int)op.ok) : fmt(" get=%d", op.got); }
  ctx += " || drain:"; for (int d : drained) ctx += fmt(" %d", d);
  ci.sample = ctx; ci.label(fmt("pool-N%u-n%d", N, n)); ci.label(fmt("parkings-%d", P.parkings));
  ci.nontrivial = P.overlap;
  ci.set_digest(fnv1a(desc.data(), desc.size()));
  check_history(N, prefill, all, drained, ctx);
  CHECK(epi_ok == (int)N, fmt("C19|quiescent-epilogue|insert-fails-iff-full|N=%u", N), "%d of %u+2 inserts into the drained cache succeeded :: %s", epi_ok, N, ctx.c_str());
}

template <class Cache, unsigned N>
static void run_sequential(ByteSource& s, CaseInfo& ci, const char* cfg) {
  InDirtyStorage<Cache> holder; Cache& cache = holder.get();
  std::vector<int> model;  // LIFO
  int next_id = 1; std::string log;
  int n = 1 + (int)s.choose(24);
  for (int k = 0; k < n; k++) {
    if (s.choose(2) == 0) {
      int id = next_id++;
      bool ok = cache.insert(Val(id));
      bool want = model.size() < N;
      log += fmt("i%d%s ", id, ok ? "" : "!");
      CHECK(ok == want, fmt("C19|sequential-%s|insert-fails-iff-full|N=%u", cfg, N), "insert(%d) -> %d with %zu cached :: %s", id, (int)ok, model.size(), log.c_str());
      if (ok) model.push_back(id);
    } else {
      Val v = cache.get();
      log += fmt("g%d ", v.id);
      if (model.empty()) CHECK(v.id == 0, fmt("C19|sequential-%s|fetch-from-empty|N=%u", cfg, N), "returned %d :: %s", v.id, log.c_str());
      else { CHECK(v.id == model.back(), fmt("C19|sequential-%s|not-LIFO|N=%u", cfg, N), "returned %d expected %d :: %s", v.id, model.back(), log.c_str()); model.pop_back(); }
    }
  }
  ci.sample = fmt("sequential %s N=%u: %s", cfg, N, log.c_str());
  ci.label(fmt("sequential-%s-N%u", cfg, N));
  ci.nontrivial = n >= 3;
}

void run_case(ByteSource& s, CaseInfo& ci) {
  unsigned mode = s.choose(4);  // 0: concurrent programs, 1: sequential shared config, 2: sequential thread-local config, 3: operation pool
  if (mode == 3) { run_pool_case(s, ci); return; }
  unsigned N = 1 + s.choose(4);
  if (mode == 1) { switch (N) { case 1: run_sequential<squids::detail::cache<Val, 1>, 1>(s, ci, "shared"); break; case 2: run_sequential<squids::detail::cache<Val, 2>, 2>(s, ci, "shared"); break; case 3: run_sequential<squids::detail::cache<Val, 3>, 3>(s, ci, "shared"); break; default: run_sequential<squids::detail::cache<Val, 4>, 4>(s, ci, "shared"); } return; }
  if (mode == 2) { switch (N) { case 1: run_sequential<squids_tl::detail::cache<Val, 1>, 1>(s, ci, "thread-local"); break; case 2: run_sequential<squids_tl::detail::cache<Val, 2>, 2>(s, ci, "thread-local"); break; case 3: run_sequential<squids_tl::detail::cache<Val, 3>, 3>(s, ci, "thread-local"); break; default: run_sequential<squids_tl::detail::cache<Val, 4>, 4>(s, ci, "thread-local"); } return; }
  int nt = 2 + (int)s.choose(2);
  int prefill = (int)s.choose(N + 1);
  std::vector<Program> progs(nt);
  int next_id = 1; std::string desc = fmt("N=%u prefill=%d", N, prefill);
  for (int t = 0; t < nt; t++) {
    int len = 1 + (int)s.choose(4);
    desc += fmt(" | T%d:", t);
    for (int k = 0; k < len; k++) { Op op; op.insert = s.choose(2) == 1; op.id = op.insert ? next_id++ : 0; op.ok = false; op.got = 0; progs[t].ops.push_back(op); desc += op.insert ? fmt(" ins(%d)", op.id) : std::string(" get"); }
  }
  c19::Sched sc;
  int npre = (int)s.choose(9);
  long pos = 0;
  desc += " | preempt:";
  for (int k = 0; k < npre; k++) { pos += (long)(s.u8() % 64); int tgt = (int)s.choose(nt); sc.preempt.emplace_back(pos, tgt); desc += fmt(" @%ld->T%d", pos, tgt); pos++; }
  int nsp = (int)s.choose(3);
  for (int k = 0; k < nsp; k++) { long c = (long)s.choose(24); sc.spurious.push_back(c); desc += fmt(" spurious-cas#%ld", c); }
  std::vector<int> drained;
  switch (N) { case 1: run_concurrent<1>(progs, prefill, sc, drained); break; case 2: run_concurrent<2>(progs, prefill, sc, drained); break; case 3: run_concurrent<3>(progs, prefill, sc, drained); break; default: run_concurrent<4>(progs, prefill, sc, drained); }
  // ---- history invariants ---------------------------------------------------------------------
  std::vector<int> inserted_ok, inserted_failed, fetched;
  for (int k = 0; k < prefill; k++) inserted_ok.push_back(1000 + k);
  std::string hist;
  for (int t = 0; t < nt; t++) { hist += fmt(" T%d:", t); for (Op& op : progs[t].ops) { if (op.insert) { (op.ok ? inserted_ok : inserted_failed).push_back(op.id); hist += fmt(" ins(%d)=%d", op.id, (int)op.ok); } else { if (op.got) fetched.push_back(op.got); hist += fmt(" get=%d", op.got); } } }
  std::string ctx = desc + " || result:" + hist + " || drain:";
  for (int d : drained) ctx += fmt(" %d", d);
  ci.sample = ctx;
  ci.label(fmt("concurrent-N%u-T%d", N, nt)); ci.label(fmt("preemptions-%d", std::min(sc.preemptions_taken, 4)));
  ci.nontrivial = sc.interesting;
  { std::string key = desc; ci.set_digest(fnv1a(key.data(), key.size())); }
  auto count = [](const std::vector<int>& v, int x) { return (int)std::count(v.begin(), v.end(), x); };
  for (int id : fetched) {
    CHECK(count(inserted_ok, id) == 1 || count(inserted_failed, id) == 1, fmt("C19|fetch-returned-unknown-id|N=%u", N), "id %d was never offered :: %s", id, ctx.c_str());
    CHECK(count(inserted_failed, id) == 0, fmt("C19|fetch-returned-id-of-failed-insert|N=%u", N), "id %d :: %s", id, ctx.c_str());
    CHECK(count(fetched, id) == 1, fmt("C19|block-handed-to-two-takers|N=%u", N), "id %d fetched %d times :: %s", id, count(fetched, id), ctx.c_str());
  }
  for (int id : drained) {
    CHECK(count(inserted_ok, id) == 1, fmt("C19|drain-returned-unknown-or-failed-id|N=%u", N), "id %d :: %s", id, ctx.c_str());
    CHECK(count(fetched, id) == 0, fmt("C19|block-handed-to-two-takers|N=%u", N), "id %d fetched during the run and again by the drain :: %s", id, ctx.c_str());
    CHECK(count(drained, id) == 1, fmt("C19|block-handed-to-two-takers|N=%u", N), "id %d drained twice :: %s", id, ctx.c_str());
  }
  for (int id : inserted_ok)
    CHECK(count(fetched, id) + count(drained, id) == 1, fmt("C19|inserted-block-lost|N=%u", N), "id %d was inserted successfully but neither fetched nor drained :: %s", id, ctx.c_str());
}

void enumerate(const Emit& emit, const std::string& tier) {
  // bounded-exhaustive: 2 threads, all programs of the given lengths, every set of at most P preemption points below maxpos
  // (8 scheduling points per uncontended operation, so maxpos covers every point of the run plus retries)
  bool quick = tier == "quick";
  int maxN = quick ? 2 : 3, maxlen = quick ? 2 : 3;
  for (int N = 1; N <= maxN; N++) for (int prefill = 0; prefill <= N; prefill++)
    for (int l0 = 1; l0 <= maxlen; l0++) for (int l1 = 1; l1 <= maxlen; l1++) for (int m0 = 0; m0 < (1 << l0); m0++) for (int m1 = 0; m1 < (1 << l1); m1++) {
      int ml = std::max(l0, l1);
      int P = quick ? 2 : (ml <= 2 ? 3 : 2);
      int maxpos = std::min(63, 8 * (l0 + l1) + 6);
      std::vector<uint8_t> head = {0, (uint8_t)(N - 1), 0 /*2 threads*/, (uint8_t)prefill, (uint8_t)(l0 - 1)};
      for (int k = 0; k < l0; k++) head.push_back((uint8_t)((m0 >> k) & 1));
      head.push_back((uint8_t)(l1 - 1));
      for (int k = 0; k < l1; k++) head.push_back((uint8_t)((m1 >> k) & 1));
      std::function<void(std::vector<int>&, int)> rec = [&](std::vector<int>& pre, int from) {
        std::vector<uint8_t> b = head;
        b.push_back((uint8_t)pre.size());
        int last = 0;
        for (size_t k = 0; k < pre.size(); k++) { b.push_back((uint8_t)(pre[k] - last)); b.push_back(0); last = pre[k] + 1; }  // with two threads every preemption switches to the other one
        b.push_back(0);  // no spurious failures
        emit(b);
        if ((int)pre.size() == P) return;
        for (int p = from; p < maxpos; p++) { pre.push_back(p); rec(pre, p + 1); pre.pop_back(); }
      };
      std::vector<int> pre;
      rec(pre, 0);
    }
  // operation pool: every operation its own thread, free op-level order via parking (point p, resume after r completions)
  {
    int nmax2 = quick ? 3 : 6, nmax1 = 6, maxpt = 9;
    std::vector<int> Ns = quick ? std::vector<int>{1, 2} : std::vector<int>{2, 3};
    for (int N : Ns) for (int prefill : {0, N}) for (int n = 1; n <= nmax1; n++) for (int types = 0; types < (1 << n); types++) {
      std::vector<uint8_t> head = {3, (uint8_t)(N - 1), (uint8_t)prefill, (uint8_t)(n - 1)};
      for (int k = 0; k < n; k++) head.push_back((uint8_t)((types >> k) & 1));
      { std::vector<uint8_t> b = head; b.push_back(0); emit(b); }
      for (int t1 = 0; t1 < n; t1++) for (int p1 = 1; p1 <= maxpt; p1++) for (int r1 = 0; r1 < n; r1++) {
        { std::vector<uint8_t> b = head; b.push_back(1); b.push_back((uint8_t)t1); b.push_back((uint8_t)(p1 - 1)); b.push_back((uint8_t)r1); emit(b); }
        if (n > nmax2) continue;
        for (int t2 = t1 + 1; t2 < n; t2++) for (int p2 = 1; p2 <= maxpt; p2++) for (int r2 = 0; r2 < n; r2++) {
          std::vector<uint8_t> b = head; b.push_back(2);
          b.push_back((uint8_t)t1); b.push_back((uint8_t)(p1 - 1)); b.push_back((uint8_t)r1);
          b.push_back((uint8_t)t2); b.push_back((uint8_t)(p2 - 1)); b.push_back((uint8_t)r2);
          emit(b);
        }
      }
    }
    // "long parking" family (quick tier; the thorough pool family above contains it): capacity 3, six operations of every type
    // vector, one of the first two operations and any later one parked at every pair of points and resumed only when all the
    // others have completed - the suspended operations then hold a view of a list that has meanwhile been emptied and refilled
    // (the shape version counters exist for; two-operation overlaps cannot reach it).
    if (quick) {
      const int N = 3, n = 6;
      for (int prefill : {0, N}) for (int types = 0; types < (1 << n); types++) {
        std::vector<uint8_t> head = {3, (uint8_t)(N - 1), (uint8_t)prefill, (uint8_t)(n - 1)};
        for (int k = 0; k < n; k++) head.push_back((uint8_t)((types >> k) & 1));
        for (int t1 = 0; t1 < 2; t1++) for (int t2 = t1 + 1; t2 < n; t2++) for (int p1 = 1; p1 <= maxpt; p1++) for (int p2 = 1; p2 <= maxpt; p2++) {
          std::vector<uint8_t> b = head; b.push_back(2);
          b.push_back((uint8_t)t1); b.push_back((uint8_t)(p1 - 1)); b.push_back((uint8_t)(n - 1));
          b.push_back((uint8_t)t2); b.push_back((uint8_t)(p2 - 1)); b.push_back((uint8_t)(n - 1));
          emit(b);
        }
      }
    }
  }
}

// fixed finding 5317901: get() read the payload after recycling the record (replayed as a schedule: replays/regress/C19-*.json)
void regressions() {
  // N=1, one block cached; T0: get, preempted after its second CAS; T1: insert(1), get
  std::vector<Program> progs(2);
  progs[0].ops.push_back(Op{false, 0, false, 0});
  progs[1].ops.push_back(Op{true, 1, false, 0}); progs[1].ops.push_back(Op{false, 0, false, 0});
  for (long pos = 0; pos < 12; pos++) {
    for (auto& p : progs) for (auto& o : p.ops) { o.ok = false; o.got = 0; }
    c19::Sched sc; sc.preempt.emplace_back(pos, 1);
    std::vector<int> drained;
    run_concurrent<1>(progs, 1, sc, drained);
    std::vector<const Op*> all; for (auto& p : progs) for (auto& o : p.ops) all.push_back(&o);
    check_history(1, 1, all, drained, fmt("regression: preemption of T0's get at point %ld", pos));
  }
}
