// C03 - time evolution by a diagonal operator is exact conjugation and forms a group
#include "common/lib.h"

const char* PROPERTY = "C03";
const int LMAX = 600;
const char* RULE =
    "rapidcheck byte strings decoded into (d in 2..6; diagonal H from a generated spectrum via the model's trace inverse or from "
    "directly generated diagonal components: distinct / one degenerate pair / all equal / all zero / identity part / integer levels; "
    "t in {0, tiny, O(1), 1e3, 1e6 scale} of either sign; A and B dense/sparse/structured; t1,t2). Oracle: every component of "
    "A.Evolve(H,t) vs fromM(U A U^dagger), U=diag(exp(i E_k t)) with E read off the model matrix of H in long double, tolerance "
    "(64|t| sum|h_kk| + 16) eps max|a|; t=0 is the identity component-wise; group law; scalar products preserved; PrepareEvolve + "
    "Evolve(buffer) (exact-size heap buffer) vs the direct form and the model; evolution of unevaluated expressions (sum, scalar multiple, "
    "negation, commutator, chained evolutions) and by operator expressions; operators mutated in place between evolutions with the same t. Non-trivial: some level difference non-zero, t != 0 "
    "and A has a non-zero off-diagonal component in a pair with non-zero frequency; distinct by digest of consumed bytes.";
void harness_init() { quiet_gsl(); }

static std::vector<double> gen_H(ByteSource& s, int d, std::string* cls) {
  std::vector<double> h(d * d, 0.0);
  unsigned k = s.choose(7);
  static const char* names[] = {"zero", "direct-diag", "spectrum-distinct", "spectrum-degenerate-pair", "spectrum-all-equal", "integer-levels", "spectrum-with-identity"};
  *cls = names[k];
  if (k == 0) return h;
  if (k == 1) { if (s.flag()) h[0] = s.num(40); for (int m = 1; m < d; m++) h[d * m + m] = s.num(6); return h; }  // the identity part may dwarf the splittings: it must not matter
  std::vector<ld> E(d);
  switch (k) {
    case 2: for (int i = 0; i < d; i++) E[i] = (ld)(4 * s.dense()); break;
    case 3: { for (int i = 0; i < d; i++) E[i] = (ld)(4 * s.dense()); int i = (int)s.choose(d), j = (int)s.choose(d); E[j] = E[i]; break; }
    case 4: { ld e = (ld)s.num(6); for (int i = 0; i < d; i++) E[i] = e; break; }
    case 5: for (int i = 0; i < d; i++) E[i] = (ld)s.range(-6, 6); break;
    default: { ld e0 = (ld)s.num(36); for (int i = 0; i < d; i++) E[i] = e0 + (ld)s.dense(); break; }
  }
  Mat M(d); for (int i = 0; i < d; i++) M.a[i][i] = cld(E[i], 0);
  std::vector<ld> c = fromM(M);
  for (int i = 0; i < d * d; i++) h[i] = (double)c[i];
  return h;
}
static double gen_t(ByteSource& s, std::string* cls) {
  unsigned k = s.choose(6);
  double t;
  switch (k) {
    case 0: t = 0.0; *cls = "t=0"; break;
    case 1: t = std::ldexp(1.0 + s.unif01(), -s.range(30, 300)); *cls = "t-tiny"; break;
    case 2: t = 4 * s.dense(); *cls = "t-O(1)"; break;
    case 3: t = 1e3 * (0.5 + s.unif01()); *cls = "t-1e3"; break;
    case 4: t = 1e6 * (0.5 + s.unif01()); *cls = "t-1e6"; break;
    default: t = s.num(12); *cls = "t-structured"; break;
  }
  if (k != 0 && k != 2 && k != 5 && s.flag()) t = -t;
  return t;
}
static Mat conj_by_phases(const Mat& A, const std::vector<ld>& E, ld t) {
  Mat R(A.n);
  for (int j = 0; j < A.n; j++) for (int k = 0; k < A.n; k++) {
    ld ph = (E[j] - E[k]) * t;
    R.a[j][k] = A.a[j][k] * cld(cosl(ph), sinl(ph));
  }
  return R;
}

void run_case(ByteSource& s, CaseInfo& ci) {
  int d = gen_dim(s);
  std::string hc, tc, pa;
  std::vector<double> h = gen_H(s, d, &hc);
  double t = gen_t(s, &tc);
  std::vector<double> a = gen_components(s, d, &pa, 30);
  unsigned sub = s.choose(7);
  ci.label("H-" + hc); ci.label(tc); ci.label("A-" + pa);
  ci.sample = fmt("d=%d H(%s)=%s t=%.17g A=%s sub=%u", d, hc.c_str(), vec_str(h).c_str(), t, vec_str(a).c_str(), sub);
  VecHolder hH, hA; SU_vector& H = hH.make(h, d, s.tail_choose(8)); SU_vector& A = hA.make(a, d, s.tail_choose(8));  // storage kinds must not matter
  ci.label(std::string("storage-H-") + hH.kind); ci.label(std::string("storage-A-") + hA.kind);
  Mat MH = toM(h, d), MA = toM(a, d);
  // level differences do not involve the identity component: read them off the traceless part
  std::vector<ld> E(d); { std::vector<double> h0 = h; h0[0] = 0; Mat M0 = toM(h0, d); for (int i = 0; i < d; i++) E[i] = M0.a[i][i].real(); }
  ld hdiag = 0; for (int k = 1; k < d; k++) hdiag += fabsl((ld)h[d * k + k]);
  ld amax = max_abs(a);
  auto tol_for = [&](ld tt) { return (64 * fabsl(tt) * hdiag + 16) * EPS * amax; };
  // non-triviality
  bool nt = false;
  if (t != 0) for (int j = 0; j < d; j++) for (int k = j + 1; k < d; k++)
    if (E[j] != E[k] && (a[d * j + k] != 0 || a[d * k + j] != 0)) nt = true;
  ci.nontrivial = nt;

  // direct form against the model
  SU_vector R(A.Evolve(H, t));
  CHECK((int)R.Dim() == d, "C03|Evolve|dim", "d=%d", d);
  std::vector<ld> want = fromM(conj_by_phases(MA, E, (ld)t));
  ld tol = tol_for(t);
  for (int i = 0; i < d * d; i++) {
    ld err = fabsl((ld)R[i] - want[i]);
    CHECK(err <= tol + TINY, fmt("C03|Evolve|not-conjugation|d=%d", d), "d=%d slot %d lib=%.17g model=%.17Lg err=%.3Lg tol=%.3Lg H=%s t=%.17g A=%s", d, i, R[i], want[i], err, tol, vec_str(h).c_str(), t, vec_str(a).c_str());
    ci.ratio("evolve", (double)(err / (tol + TINY)));
  }
  CHECK(comps(A) == a && comps(H) == h, "C03|Evolve|operand-modified", "d=%d", d);
  if (t == 0) for (int i = 0; i < d * d; i++) CHECK(R[i] == a[i], fmt("C03|Evolve|t0-not-identity|d=%d", d), "slot %d %.17g != %.17g", i, R[i], a[i]);

  // two-step form: exact-size heap buffer
  size_t bs = H.GetEvolveBufferSize();
  CHECK(bs == (size_t)(d * (d - 1)), "C03|GetEvolveBufferSize", "%zu for d=%d", bs, d);
  double* buf = (double*)malloc(sizeof(double) * bs);
  struct Free { double* p; ~Free() { free(p); } } fr{buf};
  for (size_t i = 0; i < bs; i++) buf[i] = 7e77;  // stale content must not matter
  H.PrepareEvolve(buf, t);
  for (size_t i = 0; i < bs; i++) CHECK(std::isfinite(buf[i]) && fabs(buf[i]) <= 1.0, fmt("C03|PrepareEvolve|bad-table|d=%d", d), "entry %zu = %.17g", i, buf[i]);
  SU_vector R2(A.Evolve(buf));
  for (int i = 0; i < d * d; i++) {
    ld err = fabsl((ld)R2[i] - want[i]);
    CHECK(err <= tol + TINY, fmt("C03|EvolveBuffer|not-conjugation|d=%d", d), "d=%d slot %d lib=%.17g model=%.17Lg err=%.3Lg tol=%.3Lg H=%s t=%.17g A=%s", d, i, R2[i], want[i], err, tol, vec_str(h).c_str(), t, vec_str(a).c_str());
    CHECK(fabsl((ld)R2[i] - (ld)R[i]) <= 2 * tol + TINY, fmt("C03|EvolveBuffer|differs-from-direct|d=%d", d), "slot %d %.17g vs %.17g", i, R2[i], R[i]);
  }
  {  // in-place forms: the state is overwritten by its own evolution
    SU_vector V1 = A; V1 = V1.Evolve(buf);
    SU_vector V2 = A; V2 = V2.Evolve(H, t);
    for (int i = 0; i < d * d; i++) {
      CHECK(bit_equal(V1[i], R2[i]) || V1[i] == R2[i], fmt("C03|EvolveBuffer|in-place-differs|d=%d", d), "slot %d: v=v.Evolve(buffer) gives %.17g, fresh target %.17g", i, V1[i], R2[i]);
      CHECK(bit_equal(V2[i], R[i]) || V2[i] == R[i], fmt("C03|Evolve|in-place-differs|d=%d", d), "slot %d: v=v.Evolve(H,t) gives %.17g, fresh target %.17g", i, V2[i], R[i]);
    }
  }
  if (sub == 1) {  // several vectors through one prepared buffer
    for (int rep = 0; rep < 2; rep++) {
      std::vector<double> b = gen_dense(s, d);
      SU_vector B = make_vec(b, d);
      SU_vector RB(B.Evolve(buf));
      std::vector<ld> wb = fromM(conj_by_phases(toM(b, d), E, (ld)t));
      ld tb = (64 * fabsl((ld)t) * hdiag + 16) * EPS * max_abs(b);
      for (int i = 0; i < d * d; i++) CHECK(fabsl((ld)RB[i] - wb[i]) <= tb + TINY, fmt("C03|EvolveBuffer|reuse-wrong|d=%d", d), "rep %d slot %d", rep, i);
    }
    ci.label("buffer-reuse");
  }
  if (sub == 2) {  // group law
    std::string c2; double t2 = gen_t(s, &c2);
    double t12 = t + t2;
    SU_vector S1(A.Evolve(H, t));
    SU_vector S2(S1.Evolve(H, t2));
    SU_vector S12(A.Evolve(H, t12));
    ld tg = tol_for(t) + tol_for(t2) + tol_for(t12) + 64 * EPS * hdiag * amax * (fabsl((ld)t) + fabsl((ld)t2));
    for (int i = 0; i < d * d; i++)
      CHECK(fabsl((ld)S2[i] - (ld)S12[i]) <= tg + TINY, fmt("C03|Evolve|group-law|d=%d", d), "slot %d: (t1 then t2)=%.17g (t1+t2)=%.17g t1=%.17g t2=%.17g tol=%.3Lg", i, S2[i], S12[i], t, t2, tg);
    // inverse
    SU_vector Back(S1.Evolve(H, -t));
    for (int i = 0; i < d * d; i++)
      CHECK(fabsl((ld)Back[i] - (ld)a[i]) <= 2 * tol_for(t) + TINY, fmt("C03|Evolve|inverse|d=%d", d), "slot %d %.17g vs %.17g", i, Back[i], a[i]);
    ci.label("group-law");
  }
  if (sub == 3) {  // scalar products preserved
    std::vector<double> b = gen_components(s, d, nullptr, 20);
    SU_vector B = make_vec(b, d);
    SU_vector RB(B.Evolve(H, t));
    double p0 = A * B, p1 = R * RB;
    ld sa = 0, sb = 0; for (double x : a) sa += (ld)x * x; for (double x : b) sb += (ld)x * x;
    ld tp = (64 * fabsl((ld)t) * hdiag + 64) * 4 * d * EPS * sqrtl(sa) * sqrtl(sb);
    CHECK(fabsl((ld)p0 - (ld)p1) <= tp + TINY * (1 + sqrtl(sa) + sqrtl(sb)), fmt("C03|Evolve|scalar-product-not-preserved|d=%d", d), "before %.17g after %.17g tol %.3Lg", p0, p1, tp);
    ci.label("scalar-product");
  }
  if (sub == 4 || sub == 5) {  // the evolved operand (and the operator) as unevaluated expressions, and chained evolutions
    std::vector<double> b = gen_dense(s, d);
    SU_vector B = make_vec(b, d);
    double sc = s.num(4);
    unsigned shape = s.choose(8);
    static const char* SH[] = {"(A+B).Evolve(H,t)", "(s*A).Evolve(H,t)", "(-A).Evolve(H,t)", "iCommutator(A,B).Evolve(H,t)", "A.Evolve(H,t).Evolve(H,t2)", "A.Evolve(buf).Evolve(H,t2)",
                               "A.Evolve(s*H,t)", "(A-B).Evolve(H+H,t)"};
    ci.label(std::string("expr-") + SH[shape]);
    std::string c2; double t2 = gen_t(s, &c2);
    SU_vector X(d), Got(d); ld tt = (ld)t; std::vector<ld> Ee = E; ld hd = hdiag;
    switch (shape) {
      case 0: X = A + B; Got = (A + B).Evolve(H, t); break;
      case 1: X = sc * A; Got = (sc * A).Evolve(H, t); break;
      case 2: X = -A; Got = (-A).Evolve(H, t); break;
      case 3: X = iCommutator(A, B); Got = iCommutator(A, B).Evolve(H, t); break;
      case 4: X = R; Got = A.Evolve(H, t).Evolve(H, t2); tt = (ld)t2; break;
      case 5: X = R2; Got = A.Evolve(buf).Evolve(H, t2); tt = (ld)t2; break;
      case 6: { X = A; Got = A.Evolve(sc * H, t); SU_vector sH(sc * H); std::vector<double> h2 = comps(sH); h2[0] = 0; Mat M2 = toM(h2, d); hd = 0; for (int i = 0; i < d; i++) Ee[i] = M2.a[i][i].real(); for (int k = 1; k < d; k++) hd += fabsl((ld)h2[d * k + k]); break; }
      default: { X = A - B; Got = (A - B).Evolve(H + H, t); SU_vector HH(H + H); std::vector<double> h2 = comps(HH); h2[0] = 0; Mat M2 = toM(h2, d); hd = 0; for (int i = 0; i < d; i++) Ee[i] = M2.a[i][i].real(); for (int k = 1; k < d; k++) hd += fabsl((ld)h2[d * k + k]); break; }
    }
    CHECK((int)Got.Dim() == d, "C03|Evolve-of-expression|dim", "%s d=%d got %u", SH[shape], d, Got.Dim());
    std::vector<double> x = comps(X);
    std::vector<ld> wx = fromM(conj_by_phases(toM(x, d), Ee, tt));
    ld tx = (64 * fabsl(tt) * hd + 16) * EPS * max_abs(x);
    for (int i = 0; i < d * d; i++) {
      ld err = fabsl((ld)Got[i] - wx[i]);
      CHECK(err <= tx + TINY, fmt("C03|Evolve-of-expression|not-conjugation|%s", SH[shape]), "d=%d slot %d lib=%.17g model=%.17Lg err=%.3Lg tol=%.3Lg :: %s", d, i, Got[i], wx[i], err, tx, ci.sample.c_str());
    }
    CHECK(comps(A) == a && comps(H) == h && comps(B) == b, "C03|Evolve-of-expression|operand-modified", "%s d=%d", SH[shape], d);
  }
  if (sub == 6) {  // the operator changes value in place between evolutions with the same t: nothing may be remembered from the earlier call
    unsigned how = s.choose(4);
    static const char* HOW[] = {"H*=s", "H[k]=x", "H=H2", "fresh-H-same-block"};
    ci.label(std::string("operator-mutated-") + HOW[how]);
    std::string hc2; std::vector<double> h2 = gen_H(s, d, &hc2);
    std::vector<double> b = gen_dense(s, d);
    SU_vector B = make_vec(b, d);
    SU_vector Hm = make_vec(h, d);
    SU_vector first(A.Evolve(Hm, t));
    for (int i = 0; i < d * d; i++) CHECK(bit_equal(first[i], R[i]) || first[i] == R[i], "C03|Evolve|depends-on-operator-object", "slot %d", i);
    std::unique_ptr<SU_vector> Hf;
    const SU_vector* Hnow = &Hm;
    switch (how) {
      case 0: { double f = s.flag() ? 2.0 : s.num(3); Hm *= f; break; }
      case 1: { int k = 1 + (int)s.choose(d - 1); Hm[d * k + k] = s.num(4); break; }
      case 2: { SU_vector H2 = make_vec(h2, d); Hm = H2; break; }
      default: { Hm = SU_vector(); Hf.reset(new SU_vector(make_vec(h2, d))); Hnow = Hf.get(); break; }  // the released block is handed to the new operator
    }
    std::vector<double> hn = comps(*Hnow);
    std::vector<double> h0 = hn; h0[0] = 0; Mat M0 = toM(h0, d);
    std::vector<ld> En(d); for (int i = 0; i < d; i++) En[i] = M0.a[i][i].real();
    ld hdn = 0; for (int k = 1; k < d; k++) hdn += fabsl((ld)hn[d * k + k]);
    SU_vector Got(B.Evolve(*Hnow, t));
    std::vector<ld> wb = fromM(conj_by_phases(toM(b, d), En, (ld)t));
    ld tb = (64 * fabsl((ld)t) * hdn + 16) * EPS * max_abs(b);
    for (int i = 0; i < d * d; i++) {
      ld err = fabsl((ld)Got[i] - wb[i]);
      CHECK(err <= tb + TINY, fmt("C03|Evolve|stale-after-operator-change|%s", HOW[how]), "d=%d slot %d lib=%.17g model=%.17Lg err=%.3Lg tol=%.3Lg Hnew=%s :: %s", d, i, Got[i], wb[i], err, tb, vec_str(hn).c_str(), ci.sample.c_str());
    }
    // and the two-step form with the same (reused) buffer
    Hnow->PrepareEvolve(buf, t);
    SU_vector Got2(B.Evolve(buf));
    for (int i = 0; i < d * d; i++) CHECK(fabsl((ld)Got2[i] - wb[i]) <= tb + TINY, fmt("C03|EvolveBuffer|stale-after-operator-change|%s", HOW[how]), "d=%d slot %d", d, i);
  }
}
void enumerate(const Emit&, const std::string&) {}

// no defect of the pinned tree was found behind this property
void regressions() {}
