// C01 - SU_vector is a faithful linear image of the Hermitian matrix it represents
#include "common/lib.h"

const char* PROPERTY = "C01";
const int LMAX = 420;
const char* RULE =
    "rapidcheck byte strings decoded into (d in 2..6, sub-check, component vectors with per-slot value classes: zero/single generator/"
    "sparse/dense/integers/dyadics/log-uniform magnitudes up to 2^+-1000, Hermitian matrices, scalars). Oracles: GetGSLMatrix vs the "
    "closed-form Gell-Mann model entry-wise (16 eps * sum of |c_k| feeding the entry), exact Hermiticity, vector->matrix->vector and "
    "matrix->vector->matrix round trips, list round trip bit-exact, + - unary- *s s* /= *= += -= bit-equal to IEEE component arithmetic and "
    "linear on the library's own matrices, operators applied to unevaluated expression objects (expr-expr, expr+expr, expr-v, expr+v, expr*s, -expr, "
    "expr*expr, expr.Evolve) bit-equal to step-by-step evaluation, Transpose/Real/Imag against the model, operator== iff same dimension and equal components. "
    "Non-trivial: at least two non-zero slots of different kinds (identity/symmetric/antisymmetric/diagonal) or a Hermitian matrix with a "
    "non-zero imaginary off-diagonal entry; distinct by digest of consumed bytes. classes slot<d>.<k> count how often each component slot "
    "was non-zero in a checked conversion.";
void harness_init() { quiet_gsl(); }

static bool two_kinds(const std::vector<double>& c, int d) {
  int m = nonzero_kinds(c, d);
  return (m & (m - 1)) != 0;
}
static void note_slots(CaseInfo& ci, const std::vector<double>& c, int d) {
  for (int i = 0; i < d * d; i++) if (c[i] != 0) ci.label(fmt("slot%d.%d", d, i));
}
static ld entry_scale(const std::vector<double>& c, int d, int i, int j) {
  // sum of |c_k| over the slots that feed entry (i,j)
  if (i != j) { int a = std::min(i, j), b = std::max(i, j); return fabsl((ld)c[d * a + b]) + fabsl((ld)c[d * b + a]); }
  ld s = fabsl((ld)c[0]);
  for (int k = 1; k < d; k++) s += fabsl((ld)c[d * k + k]);
  return s;
}

static void check_matrix_of(const SU_vector& v, const std::vector<double>& c, int d, const char* what) {
  auto g = v.GetGSLMatrix();
  CHECK((int)g->size1 == d && (int)g->size2 == d, "C01|GetGSLMatrix|wrong-size", "%s: %zux%zu for d=%d", what, g->size1, g->size2, d);
  Mat L = fromGsl(g.get());
  Mat R = toM(c, d);
  for (int i = 0; i < d; i++) for (int j = 0; j < d; j++) {
    ld tol = 16 * EPS * entry_scale(c, d, i, j);
    ld err = cabsl_(L.a[i][j] - R.a[i][j]);
    CHECK(err <= tol + TINY, fmt("C01|GetGSLMatrix|entry-mismatch|d=%d", d), "%s: d=%d entry (%d,%d) lib=%.17g%+.17gi model=%.17g%+.17gi err=%.3Lg tol=%.3Lg comps=%s",
          what, d, i, j, (double)L.a[i][j].real(), (double)L.a[i][j].imag(), (double)R.a[i][j].real(), (double)R.a[i][j].imag(), err, tol, vec_str(c).c_str());
    // exactly Hermitian, exactly real diagonal
    gsl_complex a = gsl_matrix_complex_get(g.get(), i, j), b = gsl_matrix_complex_get(g.get(), j, i);
    CHECK(GSL_REAL(a) == GSL_REAL(b) && GSL_IMAG(a) == -GSL_IMAG(b), fmt("C01|GetGSLMatrix|not-hermitian|d=%d", d), "%s: d=%d (%d,%d)=%.17g%+.17gi (%d,%d)=%.17g%+.17gi",
          what, d, i, j, GSL_REAL(a), GSL_IMAG(a), j, i, GSL_REAL(b), GSL_IMAG(b));
    if (i == j) CHECK(GSL_IMAG(a) == 0.0, fmt("C01|GetGSLMatrix|complex-diagonal|d=%d", d), "%s: diagonal %d has imaginary part %.17g", what, i, GSL_IMAG(a));
  }
}

// (a-b)*n for a scalar n of any arithmetic type: the result must be the vector n*(a-b). If overload resolution turns the product into
// something else (a double), that is reported instead of failing to compile.
static SU_vector expect_vector(SU_vector v) { return v; }
static SU_vector expect_vector(double v) { throw Fail("C01|nested|(a-b)*n non-double scalar|result-is-not-a-vector", fmt("the product evaluated to the number %.17g: it was taken for a scalar product with SU_vector(n)", v)); }
template <typename N> static SU_vector times_scalar(const SU_vector& A, const SU_vector& B, N n) { auto r = (A - B) * n; return expect_vector(std::move(r)); }
void run_case(ByteSource& s, CaseInfo& ci) {
  int d = gen_dim(s);
  unsigned sub = s.choose(8);
  std::string pat;
  switch (sub) {
    case 0: {  // vector -> matrix (-> vector)
      std::vector<double> c = gen_components(s, d, &pat, 1000);
      ci.label("conv;pat-" + pat); ci.nontrivial = two_kinds(c, d);
      ci.sample = fmt("vector->matrix->vector d=%d comps=%s", d, vec_str(c).c_str());
      SU_vector v = make_vec(c, d);
      check_matrix_of(v, c, d, "sized+assigned");
      note_slots(ci, c, d);
      auto g = v.GetGSLMatrix();
      SU_vector w(g.get());
      CHECK((int)w.Dim() == d, "C01|roundtrip|dim", "dim %u != %d", w.Dim(), d);
      ld diag_scale = fabsl((ld)c[0]); for (int k = 1; k < d; k++) diag_scale += fabsl((ld)c[d * k + k]);
      for (int i = 0; i < d * d; i++) {
        int kind = slot_kind(d, i);
        ld tol = (kind == 0 || kind == 3) ? 32 * d * EPS * diag_scale : 4 * EPS * fabsl((ld)c[i]);
        ld err = fabsl((ld)w[i] - (ld)c[i]);
        CHECK(err <= tol + TINY, fmt("C01|roundtrip|vector-matrix-vector|d=%d", d), "d=%d slot %d: %.17g -> %.17g (err %.3Lg tol %.3Lg) comps=%s", d, i, c[i], w[i], err, tol, vec_str(c).c_str());
        ci.ratio("roundtrip-vmv", (double)(err / (tol + TINY)));
      }
      // second entry point: GetGSLMatrix(gsl_matrix_complex*) into a caller-provided matrix
      GslMat pre_own(d, d), pre_big(d + 2, d + 3);
      gsl_matrix_complex_view pre_sub = gsl_matrix_complex_submatrix(pre_big.m, 1, 2, d, d);
      bool out_view = s.flag();
      gsl_matrix_complex* pre = out_view ? &pre_sub.matrix : pre_own.m;
      for (size_t i = 0; i < pre_big.m->size1; i++) for (size_t j = 0; j < pre_big.m->size2; j++) gsl_matrix_complex_set(pre_big.m, i, j, gsl_complex_rect(9.25, 1.5));
      v.GetGSLMatrix(pre);
      if (out_view) for (size_t i = 0; i < pre_big.m->size1; i++) for (size_t j = 0; j < pre_big.m->size2; j++) {
        if (i >= 1 && i < (size_t)d + 1 && j >= 2 && j < (size_t)d + 2) continue;
        gsl_complex z = gsl_matrix_complex_get(pre_big.m, i, j);
        CHECK(GSL_REAL(z) == 9.25 && GSL_IMAG(z) == 1.5, "C01|GetGSLMatrix|wrote-outside-the-target-view", "element (%zu,%zu) of the enclosing matrix changed", i, j);
      }
      for (int i = 0; i < d; i++) for (int j = 0; j < d; j++) {
        gsl_complex a = gsl_matrix_complex_get(pre, i, j), b = gsl_matrix_complex_get(g.get(), i, j);
        CHECK(bit_equal(GSL_REAL(a), GSL_REAL(b)) && bit_equal(GSL_IMAG(a), GSL_IMAG(b)), "C01|GetGSLMatrix|overloads-differ", "d=%d (%d,%d)", d, i, j);
      }
      break;
    }
    case 1: {  // Hermitian matrix -> vector -> matrix
      Mat M = gen_hermitian(s, d, 300);
      bool imag_off = false; for (int i = 0; i < d; i++) for (int j = i + 1; j < d; j++) if (M.a[i][j].imag() != 0) imag_off = true;
      ci.label("matrix-first"); ci.nontrivial = imag_off;
      ci.sample = fmt("matrix->vector->matrix d=%d M=%s", d, mat_str(M).c_str());
      GslMat g(M);
      // the matrix may also be a view into a larger one (row stride > d)
      GslMat big(d + 1 + (int)s.choose(3), d + 2);
      gsl_matrix_complex_view sub = gsl_matrix_complex_submatrix(big.m, s.choose((unsigned)(big.m->size1 - d + 1)), s.choose(3), d, d);
      bool view = s.flag();
      if (view) { for (size_t i = 0; i < big.m->size1; i++) for (size_t j = 0; j < big.m->size2; j++) gsl_matrix_complex_set(big.m, i, j, gsl_complex_rect(5.5, -7.5)); gsl_matrix_complex_memcpy(&sub.matrix, g.m); ci.label("matrix-as-view"); }
      SU_vector v(view ? &sub.matrix : g.m);
      CHECK((int)v.Dim() == d && (int)v.Size() == d * d, "C01|from-matrix|dim", "dim %u", v.Dim());
      std::vector<ld> want = fromM(M);
      ld dsc = 0; for (int i = 0; i < d; i++) dsc += fabsl(M.a[i][i].real());
      std::vector<double> c = comps(v);
      for (int i = 0; i < d * d; i++) {
        int kind = slot_kind(d, i);
        ld tol = (kind == 0 || kind == 3) ? 16 * d * EPS * dsc : 4 * EPS * fabsl(want[i]);
        ld err = fabsl((ld)c[i] - want[i]);
        CHECK(err <= tol + TINY, fmt("C01|from-matrix|component-mismatch|d=%d", d), "d=%d slot %d lib=%.17g model=%.17Lg err=%.3Lg tol=%.3Lg M=%s", d, i, c[i], want[i], err, tol, mat_str(M).c_str());
        ci.ratio("from-matrix", (double)(err / (tol + TINY)));
      }
      note_slots(ci, c, d);
      auto g2 = v.GetGSLMatrix();
      Mat B = fromGsl(g2.get());
      for (int i = 0; i < d; i++) for (int j = 0; j < d; j++) {
        ld tol = i == j ? 64 * d * EPS * dsc : 8 * EPS * cabsl_(M.a[i][j]);
        ld err = cabsl_(B.a[i][j] - M.a[i][j]);
        CHECK(err <= tol + TINY, fmt("C01|roundtrip|matrix-vector-matrix|d=%d", d), "d=%d (%d,%d) err=%.3Lg tol=%.3Lg M=%s", d, i, j, err, tol, mat_str(M).c_str());
      }
      // unique_ptr overload
      std::unique_ptr<gsl_matrix_complex, void (*)(gsl_matrix_complex*)> up(gsl_matrix_complex_alloc(d, d), gsl_matrix_complex_free);
      gsl_matrix_complex_memcpy(up.get(), g.m);
      SU_vector v2(std::move(up));
      CHECK(v2 == v, "C01|from-matrix|unique_ptr-overload-differs", "d=%d", d);
      break;
    }
    case 2: {  // component list round trip, bit exact
      std::vector<double> c = gen_components(s, d, &pat, 1000);
      ci.label("list;pat-" + pat); ci.nontrivial = two_kinds(c, d);
      ci.sample = fmt("list round trip d=%d comps=%s", d, vec_str(c).c_str());
      SU_vector v(c);
      CHECK((int)v.Dim() == d && (int)v.Size() == d * d, "C01|list|dim", "dim %u for %zu comps", v.Dim(), c.size());
      std::vector<double> r = v.GetComponents();
      CHECK(r.size() == c.size(), "C01|list|size", "%zu", r.size());
      for (int i = 0; i < d * d; i++) CHECK(bit_equal(r[i], c[i]) && bit_equal(v[i], c[i]), "C01|list|not-bit-exact", "slot %d %.17g -> %.17g", i, c[i], r[i]);
      check_matrix_of(v, c, d, "list-constructed");
      break;
    }
    case 3: {  // binary / unary arithmetic, bit-equal and linear
      std::vector<double> a = gen_components(s, d, &pat, 500), b = gen_components(s, d, nullptr, 500);
      double x = s.num(400);
      unsigned op = s.choose(5);
      static const char* names[] = {"add", "sub", "neg", "mul-right", "mul-left"};
      ci.label(std::string("arith-") + names[op]); ci.nontrivial = two_kinds(a, d) && (op == 2 || op >= 3 || count_nonzero(b) > 0);
      ci.sample = fmt("%s d=%d a=%s b=%s x=%.17g", names[op], d, vec_str(a).c_str(), vec_str(b).c_str(), x);
      SU_vector A = make_vec(a, d), B = make_vec(b, d);
      SU_vector R;
      std::vector<double> want(d * d);
      for (int i = 0; i < d * d; i++) {
        switch (op) { case 0: want[i] = a[i] + b[i]; break; case 1: want[i] = a[i] - b[i]; break; case 2: want[i] = -a[i]; break; default: want[i] = x * a[i]; }
      }
      switch (op) { case 0: R = A + B; break; case 1: R = A - B; break; case 2: R = -A; break; case 3: R = A * x; break; default: R = x * A; }
      CHECK((int)R.Dim() == d, std::string("C01|arith|dim|") + names[op], "dim %u", R.Dim());
      for (int i = 0; i < d * d; i++)
        CHECK(bit_equal(R[i], want[i]) || (want[i] == 0 && R[i] == 0), std::string("C01|arith|not-componentwise|") + names[op], "d=%d slot %d lib=%.17g ieee=%.17g a=%.17g b=%.17g x=%.17g", d, i, R[i], want[i], a[i], b[i], x);
      CHECK(comps(A) == a && comps(B) == b, std::string("C01|arith|operand-modified|") + names[op], "d=%d", d);
      // linear on the library's own matrices
      if (finite_vec(want)) {
        Mat MA = fromGsl(A.GetGSLMatrix().get()), MB = fromGsl(B.GetGSLMatrix().get()), MR = fromGsl(R.GetGSLMatrix().get());
        Mat W(d);
        switch (op) { case 0: W = MA + MB; break; case 1: W = MA - MB; break; case 2: W = scale(MA, cld(-1, 0)); break; default: W = scale(MA, cld((ld)x, 0)); }
        ld sc = (sum_abs(a) + (op < 2 ? sum_abs(b) : 0)) * (op >= 3 ? fabsl((ld)x) : 1);
        ld err = maxabs(MR - W);
        if (all_finite(W) && all_finite(MR))
          CHECK(err <= 64 * EPS * sc + TINY, std::string("C01|arith|not-matrix-linear|") + names[op], "d=%d err=%.3Lg scale=%.3Lg", d, err, sc);
      }
      break;
    }
    case 4: {  // compound assignment
      std::vector<double> a = gen_components(s, d, &pat, 500), b = gen_components(s, d, nullptr, 500);
      double x = s.num(400);
      unsigned op = s.choose(8);
      // these checks are bit-exact (no tolerance), so the scalar may also be subnormal or next to the overflow threshold
      unsigned xs = s.choose(8);
      if (xs == 1) x = std::ldexp(1.0 + s.unif01(), -s.range(1023, 1074)) * (s.flag() ? -1 : 1);
      else if (xs == 2) x = std::ldexp(1.0 + s.unif01(), s.range(1000, 1023));
      if (xs == 1 || xs == 2) { double sc = std::ldexp(1.0, xs == 1 ? -s.range(1000, 1040) : s.range(0, 20)); for (auto& v : a) v *= sc; ci.label(xs == 1 ? "scalar-subnormal" : "scalar-huge"); }
      if (op == 3 && x == 0) x = 3.0;  // /= 0 is excluded (documented precondition: scalar division)
      static const char* names[] = {"+=", "-=", "*=", "/=", "+=self", "-=self", "*=own-component", "/=own-component"};
      int own = -1;
      if (op >= 6) {  // the scalar is one of the vector's own components (v *= v[k]): it is a value, not a reference into the storage being updated
        own = (int)s.choose(d * d);
        if (op == 7 && a[own] == 0) op = 6;
        x = a[own];
      }
      ci.label(std::string("compound") + names[op]); ci.nontrivial = two_kinds(a, d);
      ci.sample = fmt("a %s ... d=%d a=%s b=%s x=%.17g", names[op], d, vec_str(a).c_str(), vec_str(b).c_str(), x);
      SU_vector A = make_vec(a, d), B = make_vec(b, d);
      const double* addr = &A[0];
      std::vector<double> want(d * d);
      for (int i = 0; i < d * d; i++) switch (op) { case 0: want[i] = a[i] + b[i]; break; case 1: want[i] = a[i] - b[i]; break; case 2: want[i] = a[i] * x; break; case 3: want[i] = a[i] / x; break; case 4: want[i] = a[i] + a[i]; break; case 5: want[i] = a[i] - a[i]; break; case 6: want[i] = a[i] * x; break; default: want[i] = a[i] / x; }
      switch (op) { case 0: A += B; break; case 1: A -= B; break; case 2: A *= x; break; case 3: A /= x; break; case 4: A += A; break; case 5: A -= A; break; case 6: A *= A[own]; break; default: A /= A[own]; }
      CHECK(&A[0] == addr && (int)A.Dim() == d, std::string("C01|compound|storage-changed|") + names[op], "d=%d", d);
      for (int i = 0; i < d * d; i++)
        CHECK(bit_equal(A[i], want[i]) || (std::isnan(A[i]) && std::isnan(want[i])), std::string("C01|compound|not-componentwise|") + names[op], "d=%d slot %d lib=%.17g ieee=%.17g", d, i, A[i], want[i]);
      CHECK(comps(B) == b, std::string("C01|compound|operand-modified|") + names[op], "d=%d", d);
      break;
    }
    case 5: {  // Transpose / Real / Imag: pure copies and sign changes, so the whole exponent range of double is in the domain
      std::vector<double> c = gen_components(s, d, &pat, s.tail_choose(3) == 1 ? 1023 : 500);
      ci.label("transpose-real-imag;pat-" + pat); ci.nontrivial = two_kinds(c, d) && (nonzero_kinds(c, d) & 4);
      ci.sample = fmt("Transpose/Real/Imag d=%d comps=%s", d, vec_str(c).c_str());
      SU_vector v = make_vec(c, d);
      Mat M = toM(c, d);
      SU_vector t = v; t.Transpose();
      Mat T = toM(t);
      ld sc = sum_abs(c);
      CHECK(maxabs(T - transpose(M)) <= 4 * EPS * sc + TINY, fmt("C01|Transpose|not-matrix-transpose|d=%d", d), "d=%d comps=%s -> %s", d, vec_str(c).c_str(), vec_str(comps(t)).c_str());
      SU_vector tt = t; tt.Transpose();
      CHECK(tt == v || !finite_vec(c), "C01|Transpose|not-involution", "d=%d", d);
      SU_vector re = v.Real(), im = v.Imag();
      CHECK((int)re.Dim() == d && (int)im.Dim() == d, "C01|RealImag|dim", "d=%d", d);
      Mat RE = toM(re), IM = toM(im);
      for (int i = 0; i < d; i++) for (int j = 0; j < d; j++) {
        cld wr(M.a[i][j].real(), 0), wi(0, M.a[i][j].imag());
        CHECK(cabsl_(RE.a[i][j] - wr) <= 4 * EPS * sc + TINY, fmt("C01|Real|not-entrywise-real-part|d=%d", d), "d=%d (%d,%d) comps=%s real=%s", d, i, j, vec_str(c).c_str(), vec_str(comps(re)).c_str());
        CHECK(cabsl_(IM.a[i][j] - wi) <= 4 * EPS * sc + TINY, fmt("C01|Imag|not-i-times-imaginary-part|d=%d", d), "d=%d (%d,%d) comps=%s imag=%s", d, i, j, vec_str(c).c_str(), vec_str(comps(im)).c_str());
      }
      SU_vector sum = re + im;
      for (int i = 0; i < d * d; i++) CHECK(sum[i] == c[i], fmt("C01|RealImag|do-not-sum-to-vector|d=%d", d), "d=%d slot %d: %.17g + %.17g != %.17g", d, i, re[i], im[i], c[i]);
      CHECK(comps(v) == c, "C01|RealImag|operand-modified", "d=%d", d);
      break;
    }
    case 7: {  // nested expressions: operators applied to unevaluated expression objects
      std::vector<double> a = gen_components(s, d, &pat, 200), b = gen_components(s, d, nullptr, 200), c = gen_components(s, d, nullptr, 200);
      double x = s.num(100), y = s.num(100);
      unsigned form = s.choose(12);
      static const char* names[] = {"(x*a)-(y*b)", "(x*a)+(y*b)", "(a+b)-c", "(a+b)+c", "(a-b)*x", "-(a+b)", "-(x*a)", "(x*a)*(y*b) scalar product", "(a+b).Evolve(h,t)", "(a+b).Evolve(x*h,t)",
                                    "(a-b)*n non-double scalar", "(a+b)*c scalar product with a vector"};
      ci.label(std::string("nested-") + names[form]); ci.nontrivial = two_kinds(a, d) && count_nonzero(b) > 0;
      ci.sample = fmt("nested %s d=%d a=%s b=%s c=%s x=%.17g y=%.17g", names[form], d, vec_str(a).c_str(), vec_str(b).c_str(), vec_str(c).c_str(), x, y);
      SU_vector A = make_vec(a, d), B = make_vec(b, d), C = make_vec(c, d);
      std::vector<double> want(d * d);
      SU_vector R;
      std::string sig = std::string("C01|nested|") + names[form];
      if (form <= 6) {
        for (int i = 0; i < d * d; i++) switch (form) {
          case 0: want[i] = x * a[i] - y * b[i]; break;
          case 1: want[i] = x * a[i] + y * b[i]; break;
          case 2: want[i] = (a[i] + b[i]) - c[i]; break;
          case 3: want[i] = (a[i] + b[i]) + c[i]; break;
          case 4: want[i] = (a[i] - b[i]) * x; break;
          case 5: want[i] = -(a[i] + b[i]); break;
          default: want[i] = -(x * a[i]); break;
        }
        switch (form) {
          case 0: R = (x * A) - (y * B); break;
          case 1: R = (x * A) + (y * B); break;
          case 2: R = (A + B) - C; break;
          case 3: R = (A + B) + C; break;
          case 4: R = (A - B) * x; break;
          case 5: R = -(A + B); break;
          default: { auto p = x * A; R = -p; break; }
        }
        CHECK((int)R.Dim() == d, sig + "|dim", "d=%d", d);
        for (int i = 0; i < d * d; i++)
          CHECK(bit_equal(R[i], want[i]) || (want[i] == 0 && R[i] == 0) || (std::isnan(want[i]) && std::isnan(R[i])), sig + "|not-componentwise", "d=%d slot %d lib=%.17g ieee=%.17g :: %s", d, i, R[i], want[i], ci.sample.c_str());
      } else if (form == 10) {  // scalar multiplication of an expression by a scalar that is not a double: still a scalar multiplication
        unsigned ty = s.choose(5); int n = 2 + (int)s.choose(5);  // n also takes the value d
        static const char* TY[] = {"int", "unsigned", "long", "float", "long double"};
        ci.label(std::string("scalar-type-") + TY[ty]);
        double xv = ty == 3 ? (double)(n + 0.5f) : (double)n;
        switch (ty) {
          case 0: R = times_scalar(A, B, n); break;
          case 1: R = times_scalar(A, B, (unsigned)n); break;
          case 2: R = times_scalar(A, B, (long)n); break;
          case 3: R = times_scalar(A, B, n + 0.5f); break;
          default: R = times_scalar(A, B, (long double)n); break;
        }
        CHECK((int)R.Dim() == d, sig + "|dim", "scalar type %s value %g d=%d result dimension %u :: %s", TY[ty], xv, d, R.Dim(), ci.sample.c_str());
        for (int i = 0; i < d * d; i++) { double w = (a[i] - b[i]) * xv; CHECK(bit_equal(R[i], w) || (w == 0 && R[i] == 0) || (std::isnan(w) && std::isnan(R[i])), sig + "|not-componentwise", "scalar type %s: d=%d slot %d lib=%.17g ieee=%.17g :: %s", TY[ty], d, i, R[i], w, ci.sample.c_str()); }
      } else if (form == 11) {
        SU_vector X = A + B;
        double naive = X * C, got = (A + B) * C;
        CHECK(bit_equal(naive, got) || (std::isnan(naive) && std::isnan(got)), sig + "|differs-from-evaluated-operands", "%.17g vs %.17g :: %s", got, naive, ci.sample.c_str());
      } else if (form == 7) {
        SU_vector X = x * A, Y = y * B;
        double naive = X * Y, got = (x * A) * (y * B);
        CHECK(bit_equal(naive, got) || (std::isnan(naive) && std::isnan(got)), sig + "|differs-from-evaluated-operands", "%.17g vs %.17g :: %s", got, naive, ci.sample.c_str());
      } else {
        std::vector<double> h(d * d, 0.0); for (int m = 1; m < d; m++) h[d * m + m] = s.num(3);
        double t = 2 * s.dense();
        SU_vector H = make_vec(h, d), T = A + B;
        SU_vector naive, got;
        if (form == 8) { naive = T.Evolve(H, t); got = (A + B).Evolve(H, t); }
        else { SU_vector XH = x * H; naive = T.Evolve(XH, t); got = (A + B).Evolve(x * H, t); }
        for (int i = 0; i < d * d; i++) CHECK(bit_equal(naive[i], got[i]) || (std::isnan(naive[i]) && std::isnan(got[i])), sig + "|differs-from-evaluated-operands", "slot %d %.17g vs %.17g :: %s", i, got[i], naive[i], ci.sample.c_str());
      }
      CHECK(comps(A) == a && comps(B) == b && comps(C) == c, sig + "|operand-modified", "d=%d", d);
      break;
    }
    default: {  // equality
      std::vector<double> a = gen_components(s, d, &pat, 500);
      unsigned k = s.choose(6);
      static const char* names[] = {"copy", "one-ulp", "signed-zero", "other-dim", "one-slot-value", "independent"};
      ci.label(std::string("eq-") + names[k]); ci.nontrivial = count_nonzero(a) >= 2;
      SU_vector A = make_vec(a, d);
      bool expect; SU_vector B;
      std::vector<double> b = a; int d2 = d;
      int slot = (int)(s.u16() % (unsigned)(d * d));
      switch (k) {
        case 0: break;
        case 1: b[slot] = ByteSource::ulp_step(a[slot], s.flag() ? 1 : -1); break;
        case 2: for (auto& x : b) if (x == 0) x = -0.0; break;
        case 3: { d2 = 2 + (int)((d - 2 + 1 + s.choose(4)) % 5); b.assign(d2 * d2, 0.0); for (int i = 0; i < d2 * d2; i++) b[i] = a[i % (d * d)]; break; }
        case 4: b[slot] = s.num(100); break;
        default: b = gen_components(s, d, nullptr, 100); break;
      }
      B = make_vec(b, d2);
      expect = d2 == d;
      if (expect) for (int i = 0; i < d * d; i++) if (!(a[i] == b[i])) expect = false;
      ci.sample = fmt("equality %s d=%d d2=%d a=%s b=%s expect=%d", names[k], d, d2, vec_str(a).c_str(), vec_str(b).c_str(), (int)expect);
      bool got = A == B, got2 = B == A;
      CHECK(got == expect && got2 == expect, std::string("C01|equality|wrong-answer|") + names[k], "d=%d d2=%d expect=%d got=%d/%d a=%s b=%s", d, d2, (int)expect, (int)got, (int)got2, vec_str(a).c_str(), vec_str(b).c_str());
      CHECK(A == A, "C01|equality|not-reflexive", "d=%d", d);
      break;
    }
  }
}
void enumerate(const Emit&, const std::string&) {}

// no defect of the pinned tree was found behind this property
// fixed finding 6da1297: (expression)*(non-double scalar) was taken for a scalar product
void regressions() {
  for (int d = 2; d <= 6; d++) for (int n = 2; n <= 6; n++) {
    SU_vector A(d), B(d); for (int i = 0; i < d * d; i++) { A[i] = 0.5 + i; B[i] = 0.25 * i; }
    SU_vector R1 = times_scalar(A, B, n), R2 = times_scalar(A, B, (unsigned)n), R3 = times_scalar(A, B, n + 0.5f);
    for (int i = 0; i < d * d; i++) CHECK(R1[i] == (A[i] - B[i]) * n && R2[i] == R1[i] && R3[i] == (A[i] - B[i]) * (double)(n + 0.5f), "C01|nested|(a-b)*n non-double scalar|not-componentwise", "regression: d=%d n=%d slot %d", d, n, i);
  }
}
