// C05 - expectation values are Schroedinger-picture traces; x-interpolation is linear
#include "common/lib.h"
#include <SQuIDS/SQuIDS.h>

const char* PROPERTY = "C05";
const int LMAX = 1500;
const char* RULE =
    "rapidcheck byte strings decoded into one or two solver objects (nx 2..8, nsun 2..6, nrhos 1..2, grid linear/log/user strictly increasing, "
    "t_ini != 0 allowed, diagonal H0(x,irho) depending on x and irho, random stored states, a clock history of Evolve(dt) calls with numerics "
    "off and optionally one numerical segment after which the stored state is read back), random Hermitian operators and 1..6 queries with x "
    "classes node / node +-1 ulp / midpoint / interior / first / last / just below / far below / just above / far above / +-inf; queries "
    "alternate between the two solvers of different nsun. Oracle: GetExpectationValue vs Tr(exp(-iH0 tau) rho exp(iH0 tau) O) in the model; "
    "GetIntermediateState / GetExpectationValueD (4 overloads) vs the convex combination of the bracketing nodes found by the harness' own scan "
    "with H0 evaluated at x; node-indexed form at nodes; averaging overloads with scale 1e300 equal the plain ones and flag nothing, with a "
    "reachable scale they equal the trace with the over-threshold pairs removed and flag exactly those pairs; every x "
    "outside [x_first,x_last] raises. Non-trivial: tau != 0, H0 non-degenerate at x, state and operator both with off-diagonal parts, x strictly "
    "inside an interval (interpolation) or strictly outside (rejection); distinct by digest of consumed bytes.";
void harness_init() { quiet_gsl(); }

struct Sol : public squids::SQuIDS {
  int d; unsigned nrh;
  std::vector<std::vector<double>> hA, hB;  // per irho: diagonal components, H0(x) = hA + x*hB
  std::vector<double> hi;                    // constant HI for the optional numerical segment
  Sol(unsigned nx, unsigned dd, unsigned nr, double ti) : squids::SQuIDS(nx, dd, nr, 0, ti), d((int)dd), nrh(nr) {}
  std::vector<double> h0c(double x, unsigned ir) const {
    std::vector<double> c(d * d, 0.0);
    for (int k = 0; k < d * d; k++) c[k] = hA[ir][k] + x * hB[ir][k];
    return c;
  }
  // optional "background" solver consulted from inside H0 (a profile held in a second object, as propagation codes do): the value of H0
  // does not depend on the answer, but the nested query runs while the outer one is in progress
  const Sol* bg = nullptr; double bg_x = 0; mutable unsigned nested_calls = 0;
  SU_vector H0(double x, unsigned ir) const override {
    if (bg) { SU_vector o(bg->d); o[1] = 1; o[0] = 0.25; volatile double r = bg->GetExpectationValueD(o, 0, bg_x); (void)r; nested_calls++; }
    return make_vec(h0c(x, ir), d);
  }
  SU_vector HI(unsigned, unsigned, double) const override { return make_vec(hi, d); }
  SU_vector& rho(unsigned ix, unsigned ir) { return state[ix].rho[ir]; }
};

struct Built {
  std::unique_ptr<Sol> s; std::vector<double> x; double tau; int d; unsigned nx, nrh;
  std::vector<std::vector<std::vector<double>>> st;  // [ix][ir] components as stored
  double last_x = 0;
  std::string desc;
};

static Built build(ByteSource& s, int force_d = 0) {
  Built b;
  b.d = force_d ? force_d : gen_dim(s);
  b.nx = 2 + s.choose(7); b.nrh = 1 + s.choose(2);
  double ti = s.flag() ? 0.0 : s.num(6);
  bool want_fast = false; (void)want_fast;
  b.s.reset(new Sol(b.nx, b.d, b.nrh, ti));
  Sol& S = *b.s;
  unsigned gk = s.choose(3);
  if (gk == 0) { double a = s.num(6), w = 0.1 + 10 * s.unif01(); S.Set_xrange(a, a + w, "linear"); }
  else if (gk == 1) { double a = std::pow(10.0, -3 + 4 * s.unif01()); S.Set_xrange(a, a * std::pow(10.0, 0.1 + 3 * s.unif01()), "log"); }
  else { std::vector<double> xs(b.nx); double cur = s.num(6); for (auto& v : xs) { v = cur; cur += 1e-3 + 3 * s.unif01(); } S.Set_xrange(xs); }
  b.x = S.Get_xrange();
  // "fast" class: huge level splittings observed after a tiny elapsed time (phases of order one with |t-t_ini| ~ 1e-16)
  bool fast = s.choose(6) == 0; int fast_exp = 50 + (int)s.choose(8);
  S.hA.resize(b.nrh); S.hB.resize(b.nrh);
  for (unsigned ir = 0; ir < b.nrh; ir++) {
    S.hA[ir].assign(b.d * b.d, 0.0); S.hB[ir].assign(b.d * b.d, 0.0);
    unsigned hk = s.choose(4);  // 0 zero, 1 constant, 2,3 x-dependent
    if (s.flag()) S.hA[ir][0] = s.num(4);
    for (int k = 1; k < b.d; k++) { if (hk >= 1) S.hA[ir][b.d * k + k] = s.num(4); if (hk >= 2) S.hB[ir][b.d * k + k] = s.dense(); }
    if (fast) for (int k = 1; k < b.d; k++) S.hA[ir][b.d * k + k] = std::ldexp(s.dense() + 0.1 * k, fast_exp);  // level splittings ~2^fast_exp
  }
  S.hi = gen_dense(s, b.d);
  b.st.resize(b.nx);
  for (unsigned ix = 0; ix < b.nx; ix++) { b.st[ix].resize(b.nrh); for (unsigned ir = 0; ir < b.nrh; ir++) { b.st[ix][ir] = gen_components(s, b.d, nullptr, 10); for (int k = 0; k < b.d * b.d; k++) S.rho(ix, ir)[k] = b.st[ix][ir][k]; } }
  // clock history
  int nseg = (int)s.choose(4);
  if (fast) { nseg = 1 + (int)s.choose(2); for (int i = 0; i < nseg; i++) S.Evolve(std::ldexp(0.5 + s.unif01(), -fast_exp - (int)s.choose(4))); }
  else for (int i = 0; i < nseg; i++) { double dt = s.choose(3) == 0 ? 0.0 : fabs(s.num(7)); S.Evolve(dt); }
  bool numeric = !fast && s.choose(4) == 1;
  if (numeric) {
    S.Set_CoherentRhoTerms(true); S.Set_rel_error(1e-9); S.Set_abs_error(1e-9); S.Set_h(1e-3);
    S.Evolve(0.05 + 0.2 * s.unif01());
    S.Set_CoherentRhoTerms(false);
    for (unsigned ix = 0; ix < b.nx; ix++) for (unsigned ir = 0; ir < b.nrh; ir++) b.st[ix][ir] = comps(S.rho(ix, ir));  // read back
    if (s.flag()) S.Evolve(fabs(s.num(5)));
  }
  b.tau = S.Get_t() - S.Get_t_initial();
  b.desc = fmt("solver d=%d nx=%u nrhos=%u grid=%u x=[%.17g..%.17g] t_ini=%.17g tau=%.17g numeric=%d%s", b.d, b.nx, b.nrh, gk, b.x.front(), b.x.back(), ti, b.tau, (int)numeric, fast ? " fast-levels" : "");
  return b;
}
static ld norm2c(const std::vector<double>& c) { ld s = 0; for (double x : c) s += (ld)x * x; return sqrtl(s); }
// Tr( exp(-iH tau) rho exp(iH tau) O ) in the model
static ld ref_expect(const std::vector<double>& h, ld tau, const Mat& rho, const Mat& O) {
  int d = rho.n;
  std::vector<double> h0 = h; h0[0] = 0;
  Mat MH = toM(h0, d);
  Mat R(d);
  for (int j = 0; j < d; j++) for (int k = 0; k < d; k++) { ld ph = -(MH.a[j][j].real() - MH.a[k][k].real()) * tau; R.a[j][k] = rho.a[j][k] * cld(cosl(ph), sinl(ph)); }
  return trace(R * O).real();
}

// (cases run on a fresh thread: harness.h default) - the per-thread scratch and, for C07, the call history start from scratch
void run_case(ByteSource& s, CaseInfo& ci) {
  bool two = s.choose(3) == 1;
  Built B1 = build(s);
  Built B2; if (two) B2 = build(s, 2 + (B1.d - 2 + 1 + (int)s.choose(4)) % 5);
  ci.label(two ? "two-solvers" : "one-solver");
  // (tail byte: added later) H0 of the first solver queries a small background solver of the same or another dimension
  std::unique_ptr<Sol> BG;
  unsigned nest = s.tail_choose(4);
  if (nest == 1 || nest == 2) {
    int bd = nest == 1 ? B1.d : 2 + (B1.d - 2 + 1 + (int)s.tail_choose(4)) % 5;
    BG.reset(new Sol(2, bd, 1, 0.0));
    BG->Set_xrange(0.0, 1.0, "linear");
    BG->hA.assign(1, std::vector<double>(bd * bd, 0.0)); BG->hB.assign(1, std::vector<double>(bd * bd, 0.0)); BG->hi.assign(bd * bd, 0.0);
    for (int k = 1; k < bd; k++) BG->hA[0][bd * k + k] = 0.3 * k;
    for (unsigned ix = 0; ix < 2; ix++) for (int k = 0; k < bd * bd; k++) BG->rho(ix, 0)[k] = 0.5 + 0.1 * k + ix;
    B1.s->bg = BG.get(); B1.s->bg_x = 0.25;
    ci.label(nest == 1 ? "H0-queries-background-solver-same-dim" : "H0-queries-background-solver-other-dim");
  }
  int nq = 1 + (int)s.choose(6);
  std::string samp = B1.desc;
  for (int q = 0; q < nq; q++) {
    Built& B = (two && (q & 1)) ? B2 : B1;
    Sol& S = *B.s;
    int d = B.d;
    unsigned ir = s.choose(B.nrh);
    std::vector<double> o = s.flag() ? gen_dense(s, d) : gen_components(s, d, nullptr, 10);
    SU_vector O = make_vec(o, d);
    Mat MO = toM(o, d);
    // the stored states may change between two queries (a derived class rewrites them; t does not move): results must follow
    if (q > 0 && s.choose(3) == 0) {
      unsigned mx = s.choose(B.nx);
      for (unsigned mr = 0; mr < B.nrh; mr++) { std::vector<double> nv = gen_dense(s, d); for (int c = 0; c < d * d; c++) S.rho(mx, mr)[c] = nv[c]; B.st[mx][mr] = nv; }
      ci.label("state-rewritten-between-queries");
    }
    unsigned xc = s.choose(13);
    static const char* names[] = {"node", "node+ulp", "node-ulp", "midpoint", "interior", "first", "last", "just-below", "far-below", "just-above", "far-above", "inf", "same-as-previous"};
    unsigned k = s.choose(B.nx);
    double xi;
    switch (xc) {
      case 0: xi = B.x[k]; break;
      case 1: xi = ByteSource::ulp_step(B.x[k], 1); break;
      case 2: xi = ByteSource::ulp_step(B.x[k], -1); break;
      case 3: { unsigned k2 = std::min(k, B.nx - 2); xi = B.x[k2] + (B.x[k2 + 1] - B.x[k2]) / 2; break; }
      case 4: xi = B.x.front() + (B.x.back() - B.x.front()) * s.unif01(); break;
      case 5: xi = B.x.front(); break;
      case 6: xi = B.x.back(); break;
      case 7: xi = ByteSource::ulp_step(B.x.front(), -1); break;
      case 8: xi = B.x.front() - (fabs(B.x.front()) + 1) * (1 + 5 * s.unif01()); break;
      case 9: xi = ByteSource::ulp_step(B.x.back(), 1); break;
      case 10: xi = B.x.back() + (fabs(B.x.back()) + 1) * (1 + 5 * s.unif01()); break;
      case 11: { unsigned w = s.choose(3); xi = w == 0 ? INFINITY : w == 1 ? -INFINITY : std::nan(""); if (w == 2) ci.label("x-nan"); break; }  // NaN is in no interval: reported, not answered
      default: xi = B.last_x; break;  // the same x as the previous query on this solver
    }
    B.last_x = xi;
    ci.label(std::string("x-") + names[xc]);
    std::string ctx = fmt("%s | query %d: irho=%u x=%.17g (%s) O=%s", B.desc.c_str(), q, ir, xi, names[xc], vec_str(o).c_str());
    samp = ctx;
    ld tau = (ld)B.tau;
    bool inside = xi >= B.x.front() && xi <= B.x.back();
    squids::SQuIDS::expectationValueDBuffer ubuf(d);
    std::vector<bool> avr(d * (d - 1) / 2, true);
    if (!inside) {
      // every entry point taking x must raise
      int raised = 0, total = 0;
      auto expect_throw = [&](const std::function<void()>& f, const char* what) {
        total++;
        bool threw = false;
        try { f(); } catch (const std::exception&) { threw = true; }
        CHECK(threw, fmt("C05|%s|outside-range-answered|%s", what, xi != xi ? "nan" : xi < B.x.front() ? "below" : "above"), "%s", ctx.c_str());
        raised++;
      };
      expect_throw([&] { SU_vector r = S.GetIntermediateState(ir, xi); (void)r; }, "GetIntermediateState");
      expect_throw([&] { S.GetExpectationValueD(O, ir, xi); }, "GetExpectationValueD");
      expect_throw([&] { S.GetExpectationValueD(O, ir, xi, ubuf); }, "GetExpectationValueD-buf");
      expect_throw([&] { S.GetExpectationValueD(O, ir, xi, 1e300, avr); }, "GetExpectationValueD-avg");
      expect_throw([&] { S.GetExpectationValueD(O, ir, xi, ubuf, 1e300, avr); }, "GetExpectationValueD-buf-avg");
      ci.nontrivial = true;
      continue;
    }
    // bracketing by the harness' own linear scan: largest i <= nx-2 with x_i <= xi
    unsigned i0 = 0;
    for (unsigned i = 0; i + 1 < B.nx; i++) if (B.x[i] <= xi) i0 = i;
    if (xi == B.x[i0] && i0 > 0 && xc != 5) { /* at an interior node either neighbouring interval gives the node's state */ }
    ld f2 = ((ld)xi - (ld)B.x[i0]) / ((ld)B.x[i0 + 1] - (ld)B.x[i0]), f1 = 1 - f2;
    const std::vector<double>&r0 = B.st[i0][ir], &r1 = B.st[i0 + 1][ir];
    std::vector<ld> mix(d * d);
    ld rmax = std::max(max_abs(r0), max_abs(r1));
    for (int c = 0; c < d * d; c++) mix[c] = f1 * (ld)r0[c] + f2 * (ld)r1[c];
    // relative error of f2 computed in double: a few eps, amplified when x sits next to a node by cancellation in (x - x_i)
    ld tol_mix = 16 * EPS * rmax * (1 + fabsl(f2));
    SU_vector IS = S.GetIntermediateState(ir, xi);
    CHECK((int)IS.Dim() == d, "C05|GetIntermediateState|dim", "%s", ctx.c_str());
    for (int c = 0; c < d * d; c++) {
      ld err = fabsl((ld)IS[c] - mix[c]);
      ci.ratio("intermediate-state", (double)(err / (tol_mix + TINY)));
      CHECK(err <= tol_mix + TINY, "C05|GetIntermediateState|not-convex-combination", "slot %d lib=%.17g model=%.17Lg (i=%u f2=%.17Lg) err=%.3Lg tol=%.3Lg :: %s", c, IS[c], mix[c], i0, f2, err, tol_mix, ctx.c_str());
    }
    std::vector<double> mixd(d * d); for (int c = 0; c < d * d; c++) mixd[c] = (double)mix[c];
    Mat MR = toM(mixd, d);
    std::vector<double> hx = S.h0c(xi, ir);
    ld hdiag = 0; for (int m = 1; m < d; m++) hdiag += fabsl((ld)hx[d * m + m]);
    ld want = ref_expect(hx, tau, MR, MO);
    ld tol = (64 * fabsl(tau) * hdiag + 64) * EPS * d * norm2c(mixd) * norm2c(o) * 2 + 8 * d * tol_mix * norm2c(o);
    double e1 = S.GetExpectationValueD(O, ir, xi);
    double e2 = S.GetExpectationValueD(O, ir, xi, ubuf);
    for (size_t a = 0; a < avr.size(); a++) avr[a] = true;
    double e3 = S.GetExpectationValueD(O, ir, xi, 1e300, avr);
    bool flagged3 = false; for (bool f : avr) flagged3 |= f;
    for (size_t a = 0; a < avr.size(); a++) avr[a] = true;
    double e4 = S.GetExpectationValueD(O, ir, xi, ubuf, 1e300, avr);
    bool flagged4 = false; for (bool f : avr) flagged4 |= f;
    const double es[4] = {e1, e2, e3, e4};
    static const char* en[4] = {"GetExpectationValueD", "GetExpectationValueD-buf", "GetExpectationValueD-avg", "GetExpectationValueD-buf-avg"};
    for (int a = 0; a < 4; a++) {
      ld err = fabsl((ld)es[a] - want);
      ci.ratio(en[a], (double)(err / (tol + TINY)));
      CHECK(err <= tol + TINY, fmt("C05|%s|not-interpolated-trace", en[a]), "lib=%.17g model=%.17Lg err=%.3Lg tol=%.3Lg (i=%u f2=%.17Lg) :: %s", es[a], want, err, tol, i0, f2, ctx.c_str());
    }
    CHECK(!flagged3 && !flagged4, "C05|GetExpectationValueD-avg|unreachable-scale-flagged", "%s", ctx.c_str());
    // reachable averaging scale: pairs whose phase |w tau| exceeds it are removed from the evolved operator and flagged
    if (s.flag() && tau != 0) {
      std::vector<double> h0v = hx; h0v[0] = 0; Mat MHx = toM(h0v, d);
      std::vector<ld> phases; for (int j = 0; j < d; j++) for (int m = j + 1; m < d; m++) phases.push_back(fabsl((MHx.a[j][j].real() - MHx.a[m][m].real()) * tau));
      ld pick = phases[s.choose((unsigned)phases.size())];
      double scale = (double)(pick * (0.5 + s.unif01())) + (s.flag() ? 0.0 : 0.1);
      ld slack = 64 * EPS * fabsl(tau) * hdiag + 1e-300L;
      bool zone = false; int nfilt = 0;
      Mat RS(d);  // rho_S with the filtered pairs removed
      for (int j = 0; j < d; j++) for (int m = 0; m < d; m++) {
        ld w = (MHx.a[j][j].real() - MHx.a[m][m].real()) * tau;
        if (j != m && fabsl(fabsl(w) - fabs(scale)) <= slack) zone = true;
        bool keep = j == m || fabsl(w) <= fabs(scale);
        if (!keep && j < m) nfilt++;
        RS.a[j][m] = keep ? MR.a[j][m] * cld(cosl(-w), sinl(-w)) : cld(0, 0);
      }
      if (!zone) {
        ld wantf = trace(RS * MO).real();
        for (size_t a = 0; a < avr.size(); a++) avr[a] = (a & 1);
        double f1v = S.GetExpectationValueD(O, ir, xi, scale, avr);
        int nfl = 0; for (bool f : avr) nfl += f ? 1 : 0;
        CHECK(fabsl((ld)f1v - wantf) <= tol + TINY, "C05|GetExpectationValueD-avg|reachable-scale-wrong", "scale=%.17g lib=%.17g model=%.17Lg tol=%.3Lg :: %s", scale, f1v, wantf, tol, ctx.c_str());
        CHECK(nfl == nfilt, "C05|GetExpectationValueD-avg|wrong-number-of-flags", "scale=%.17g flags=%d filtered pairs=%d :: %s", scale, nfl, nfilt, ctx.c_str());
        for (size_t a = 0; a < avr.size(); a++) avr[a] = !(a & 1);
        double f2v = S.GetExpectationValueD(O, ir, xi, ubuf, scale, avr);
        CHECK(fabsl((ld)f2v - wantf) <= tol + TINY, "C05|GetExpectationValueD-buf-avg|reachable-scale-wrong", "scale=%.17g lib=%.17g model=%.17Lg :: %s", scale, f2v, wantf, ctx.c_str());
        ci.label(nfilt ? "avg-scale-filters" : "avg-scale-keeps-all");
      }
    }
    CHECK(comps(O) == o, "C05|operator-modified", "%s", ctx.c_str());
    // node-indexed forms
    bool at_node = false; unsigned node = 0;
    for (unsigned i = 0; i < B.nx; i++) if (B.x[i] == xi) { at_node = true; node = i; }
    if (xc == 0 || xc == 5 || xc == 6) CHECK(at_node, "C05|harness|node-class-without-node", "%s", ctx.c_str());
    if (at_node) {
      Mat MN = toM(B.st[node][ir], d);
      ld wn = ref_expect(hx, tau, MN, MO);
      ld tn = (64 * fabsl(tau) * hdiag + 64) * EPS * d * norm2c(B.st[node][ir]) * norm2c(o) * 2;
      double n1 = S.GetExpectationValue(O, ir, node);
      for (size_t a = 0; a < avr.size(); a++) avr[a] = true;
      double n2 = S.GetExpectationValue(O, ir, node, 1e300, avr);
      bool fl = false; for (bool f : avr) fl |= f;
      CHECK(fabsl((ld)n1 - wn) <= tn + TINY, "C05|GetExpectationValue|not-schroedinger-trace", "lib=%.17g model=%.17Lg tol=%.3Lg :: %s", n1, wn, tn, ctx.c_str());
      CHECK(fabsl((ld)n2 - wn) <= tn + TINY, "C05|GetExpectationValue-avg|not-schroedinger-trace", "lib=%.17g model=%.17Lg tol=%.3Lg :: %s", n2, wn, tn, ctx.c_str());
      CHECK(!fl, "C05|GetExpectationValue-avg|unreachable-scale-flagged", "%s", ctx.c_str());
      CHECK(fabsl((ld)n1 - (ld)e1) <= tn + tol + TINY, "C05|GetExpectationValueD|disagrees-with-node-form-at-node", "node form %.17g vs D form %.17g :: %s", n1, e1, ctx.c_str());
      ci.ratio("node-form", (double)(fabsl((ld)n1 - wn) / (tn + TINY)));
      ci.label("at-node");
      if (tau != 0 && s.flag()) {  // node-indexed averaging overload with a reachable scale
        std::vector<double> h0v = hx; h0v[0] = 0; Mat MHx = toM(h0v, d);
        std::vector<ld> phases; for (int j = 0; j < d; j++) for (int m = j + 1; m < d; m++) phases.push_back(fabsl((MHx.a[j][j].real() - MHx.a[m][m].real()) * tau));
        double scale = (double)(phases[s.choose((unsigned)phases.size())] * (0.5 + s.unif01())) + (s.flag() ? 0.0 : 0.1);
        ld slack = 64 * EPS * fabsl(tau) * hdiag + 1e-300L; bool zone = false; int nfilt = 0;
        Mat RS(d);
        for (int j = 0; j < d; j++) for (int m = 0; m < d; m++) {
          ld w = (MHx.a[j][j].real() - MHx.a[m][m].real()) * tau;
          if (j != m && fabsl(fabsl(w) - fabs(scale)) <= slack) zone = true;
          bool keep = j == m || fabsl(w) <= fabs(scale);
          if (!keep && j < m) nfilt++;
          RS.a[j][m] = keep ? MN.a[j][m] * cld(cosl(-w), sinl(-w)) : cld(0, 0);
        }
        if (!zone) {
          for (size_t a = 0; a < avr.size(); a++) avr[a] = (a & 1);
          double nf = S.GetExpectationValue(O, ir, node, scale, avr);
          int nfl = 0; for (bool f : avr) nfl += f ? 1 : 0;
          ld wantf = trace(RS * MO).real();
          CHECK(fabsl((ld)nf - wantf) <= tn + TINY, "C05|GetExpectationValue-avg|reachable-scale-wrong", "scale=%.17g lib=%.17g model=%.17Lg :: %s", scale, nf, wantf, ctx.c_str());
          CHECK(nfl == nfilt, "C05|GetExpectationValue-avg|wrong-number-of-flags", "scale=%.17g flags=%d filtered pairs=%d :: %s", scale, nfl, nfilt, ctx.c_str());
        }
      }
    } else {
      // also the node-indexed form on some node, for its own sake
      unsigned nn = s.choose(B.nx);
      std::vector<double> hn = S.h0c(B.x[nn], ir);
      ld hd2 = 0; for (int m = 1; m < d; m++) hd2 += fabsl((ld)hn[d * m + m]);
      ld wn = ref_expect(hn, tau, toM(B.st[nn][ir], d), MO);
      ld tn = (64 * fabsl(tau) * hd2 + 64) * EPS * d * norm2c(B.st[nn][ir]) * norm2c(o) * 2;
      double n1 = S.GetExpectationValue(O, ir, nn);
      CHECK(fabsl((ld)n1 - wn) <= tn + TINY, "C05|GetExpectationValue|not-schroedinger-trace", "node %u lib=%.17g model=%.17Lg tol=%.3Lg :: %s", nn, n1, wn, tn, ctx.c_str());
    }
    // non-triviality
    bool offd_state = (nonzero_kinds(mixd, d) & 6) != 0, offd_op = (nonzero_kinds(o, d) & 6) != 0;
    bool nondeg = false; { Mat MH = toM(hx, d); for (int j = 0; j < d; j++) for (int m = j + 1; m < d; m++) if (MH.a[j][j] != MH.a[m][m]) nondeg = true; }
    bool strictly_inside = xi > B.x[i0] && xi < B.x[i0 + 1];
    if (tau != 0 && nondeg && offd_state && offd_op && strictly_inside) ci.nontrivial = true;
  }
  ci.sample = samp;
}
void enumerate(const Emit&, const std::string&) {}

// fixed finding 9f16cdd: x below the first node was extrapolated instead of rejected
void regressions() {
  Sol S(3, 2, 1, 0.0);
  S.Set_xrange(0.0, 0.1, "linear");
  S.hA.assign(1, std::vector<double>(4, 0.0)); S.hB.assign(1, std::vector<double>(4, 0.0)); S.hi.assign(4, 0.0);
  SU_vector O(2); O[1] = 1;
  std::vector<bool> avr(1);
  squids::SQuIDS::expectationValueDBuffer ub(2);
  for (double x : {-4.9406564584124654e-324, -1.0, -(double)INFINITY, (double)NAN}) {  // (NaN: ea43bba)
    int raised = 0;
    try { SU_vector r = S.GetIntermediateState(0, x); (void)r; } catch (const std::exception&) { raised++; }
    try { S.GetExpectationValueD(O, 0, x); } catch (const std::exception&) { raised++; }
    try { S.GetExpectationValueD(O, 0, x, ub); } catch (const std::exception&) { raised++; }
    try { S.GetExpectationValueD(O, 0, x, 1e300, avr); } catch (const std::exception&) { raised++; }
    try { S.GetExpectationValueD(O, 0, x, ub, 1e300, avr); } catch (const std::exception&) { raised++; }
    CHECK(raised == 5, "C05|GetIntermediateState|outside-range-answered|below", "regression: x=%g answered by %d of 5 entry points", x, 5 - raised);
  }
  // 2164bb2: H0 that queries another solver object while GetExpectationValueD is in progress (shared per-thread buffer)
  for (int bd : {2, 3}) {
    Sol A(2, 2, 1, 0.0), BG(2, (unsigned)bd, 1, 0.0);
    A.Set_xrange(0.0, 1.0, "linear"); BG.Set_xrange(0.0, 1.0, "linear");
    for (Sol* p : {&A, &BG}) { p->hA.assign(1, std::vector<double>(p->d * p->d, 0.0)); p->hB.assign(1, std::vector<double>(p->d * p->d, 0.0)); p->hi.assign(p->d * p->d, 0.0); }
    for (unsigned ix = 0; ix < 2; ix++) { for (int k = 0; k < 4; k++) A.rho(ix, 0)[k] = 0.1 * (k + 1) + ix; for (int k = 0; k < bd * bd; k++) BG.rho(ix, 0)[k] = 7.0 + k; }
    SU_vector Oa(2); Oa[0] = 0.5; Oa[1] = 1;
    double plain = A.GetExpectationValueD(Oa, 0, 0.25);
    A.bg = &BG; A.bg_x = 0.5;
    double nested = 0; bool threw = false;
    try { nested = A.GetExpectationValueD(Oa, 0, 0.25); } catch (const std::exception&) { threw = true; }
    CHECK(!threw && nested == plain, "C05|GetExpectationValueD|not-interpolated-trace", "regression: H0 consulting another solver (dim %d): %s, %.17g vs %.17g", bd, threw ? "threw" : "returned", nested, plain);
  }
}
