# Per-property run plans for ./check. cases = rapidcheck cases per shard.
def P(src, quick, thorough, level="exploration", **kw):
    d = dict(src=src, quick=quick, thorough=thorough, level=level)
    d.update(kw)
    return d

ASSUME = ["reference: closed-form generalised Gell-Mann basis and dense complex algebra in long double (harness/common/ref.h), shares no code with the library",
          "library objects and harness built from /repo working tree with clang ASan+UBSan (-O1, -ffp-contract=off), library asserts enabled",
          "inputs restricted to documented preconditions (DESIGN.md section 3)"]

PLANS = {
    "C01": P("c01_linear_image.cpp",
             quick=[dict(mode="pbt", cases=6000, shards=4)],
             thorough=[dict(mode="pbt", cases=125000, shards=16)],
             assumptions=ASSUME),
    "C02": P("c02_products.cpp",
             quick=[dict(mode="enum"), dict(mode="pbt", cases=5000, shards=4)],
             thorough=[dict(mode="enum"), dict(mode="pbt", cases=125000, shards=16)],
             exhaustive_axes="all (d^2)^2 ordered generator pairs for d=2..6 (2274)",
             assumptions=ASSUME),
    "C03": P("c03_evolution.cpp",
             quick=[dict(mode="pbt", cases=5000, shards=4)],
             thorough=[dict(mode="pbt", cases=125000, shards=16)],
             assumptions=ASSUME),
    "C06": P("c06_rotations.cpp",
             quick=[dict(mode="enum"), dict(mode="pbt", cases=4000, shards=4)],
             thorough=[dict(mode="enum"), dict(mode="pbt", cases=100000, shards=16)],
             exhaustive_axes="all 35 plane-rotation kernels (d,i<j) x 7 angle classes x 7 phase classes",
             assumptions=ASSUME),
    "C07": P("c07_expm.cpp",
             quick=[dict(mode="pbt", cases=1200, shards=8)],
             thorough=[dict(mode="pbt", cases=25000, shards=16)],
             assumptions=ASSUME + ["the norm estimator inside the library draws from a thread-local GSL RNG, so band selection near a threshold depends on process history; accuracy must hold for whichever band is chosen"]),
    "C11": P("c11_filters.cpp",
             quick=[dict(mode="pbt", cases=5000, shards=4)],
             thorough=[dict(mode="pbt", cases=125000, shards=16)],
             assumptions=ASSUME + ["avr vectors have at least d(d-1)/2 entries (documented precondition)", "a pair whose reference phase/frequency lies within the rounding slack of a threshold may take either branch"]),
    "C12": P("c12_eigen.cpp",
             quick=[dict(mode="pbt", cases=5000, shards=4)],
             thorough=[dict(mode="pbt", cases=125000, shards=16)],
             assumptions=ASSUME),
    "C13": P("c13_factories.cpp",
             quick=[dict(mode="enum"), dict(mode="pbt", cases=3000, shards=1)],
             thorough=[dict(mode="enum"), dict(mode="pbt", cases=40000, shards=16)],
             exhaustive_axes="all (d, factory, admissible index) triples for d=2..6",
             assumptions=["reference: closed-form generalised Gell-Mann basis in long double (harness/common/ref.h)",
                          "library built from /repo working tree with clang ASan+UBSan, asserts enabled"]),
    "C17": P("c17_grid.cpp",
             quick=[dict(mode="enum"), dict(mode="pbt", cases=2500, shards=4)],
             thorough=[dict(mode="enum"), dict(mode="pbt", cases=60000, shards=16)],
             exhaustive_axes="every nx in 2..130 x {linear, log, non-uniform user grid} with x at every node, node +-1 ulp and midpoint",
             assumptions=ASSUME + ["log grids start at a >= 1e-10 (the code rejects smaller values with its own message)", "a < b; NaN arguments excluded"]),
}
