# Per-property run plans for ./check. cases = rapidcheck cases per shard.
def P(src, quick, thorough, level="exploration", **kw):
    d = dict(src=src, quick=quick, thorough=thorough, level=level)
    d.update(kw)
    return d

PLANS = {
    "C13": P("c13_factories.cpp",
             quick=[dict(mode="enum"), dict(mode="pbt", cases=3000, shards=1)],
             thorough=[dict(mode="enum"), dict(mode="pbt", cases=40000, shards=16)],
             exhaustive_axes="all (d, factory, admissible index) triples for d=2..6",
             assumptions=["reference: closed-form generalised Gell-Mann basis in long double (harness/common/ref.h)",
                          "library built from /repo working tree with clang ASan+UBSan, asserts enabled"]),
}
