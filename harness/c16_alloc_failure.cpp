// C16 - an allocation failure anywhere leaves every vector valid and memory uncorrupted
#define HARNESS_MAIN_THREAD_CASES 1  // this harness owns its threads and per-thread baselines
#define LEDGER_FAIL_SCALAR_NEW 1
// The harness needs to look at a vector's storage pointer without dereferencing it (operator[] on a vector that claims a
// size but has no storage is already undefined). All standard and GSL headers are included first, then the library header
// is read with its private section opened; nothing in the library is changed by this.
#include <cassert>
#include <cmath>
#include <functional>
#include <iosfwd>
#include <memory>
#include <stdexcept>
#include <vector>
#include <string>
#include <map>
#include <unordered_set>
#include <atomic>
#include <complex>
#include <algorithm>
#include <gsl/gsl_complex.h>
#include <gsl/gsl_complex_math.h>
#include <gsl/gsl_matrix.h>
#include <gsl/gsl_errno.h>
#define private public
#include <SQuIDS/SUNalg.h>
#undef private
#include "common/lib.h"
#include "common/ledger.h"
#include <SQuIDS/const.h>

const char* PROPERTY = "C16";
const int LMAX = 200;
const char* RULE =
    "fault enumeration: a catalogue of 44 vector operations (every constructor and factory, copy/move/expression assignment incl. resizing, "
    "stealing and aliasing forms, compound assignment from proxies, proxy conversion and nested expressions, Real/Imag, the three Rotate forms, "
    "RotateToB0/B1, UTransform/UDaggerTransform/UTransform(v,scale), both WeightedRotation overloads, GetComponents, scalar products of "
    "proxies) x pre-state shape (d, other dimension, target kind empty / owned same size / owned other size / external, block cache empty or "
    "primed). Each operation is first run counting its allocations N (operator new and new[] on the calling thread), then re-run N times from an "
    "identical pre-state failing exactly allocation k=0..N-1 with std::bad_alloc [exhaustive over (operation,k) per pre-state shape in the enum "
    "engine; pbt adds random values and shapes]. Oracle: std::bad_alloc propagates; every pre-existing vector other than the target is "
    "bit-unchanged; 40 fresh vectors of every dimension have addresses distinct from each other and from all live storage (a block both cached "
    "and owned would be handed out twice); the target and all others accept a fresh assignment (value checked) and destruction; after clearing "
    "the cache the ledger is back to its baseline with no foreign or double delete[]; no sanitizer report. Non-trivial: a run in which the "
    "injected failure actually fired; distinct by (operation, shape, k).";
void harness_init() { quiet_gsl(); { SU_vector a(3), b(3); a[4] = 0.1; SU_vector r = b.UTransform(a, gsl_complex_rect(0, 1)); (void)r; } SU_vector::clear_mem_cache(); }

struct World {
  int d, d2, tk; bool primed;
  double* ext = nullptr; double* ext2 = nullptr;
  std::unique_ptr<SU_vector> T, A, B, X, R;
  std::vector<double> a, b, x, told;
  squids::Const pv, pw;
  ~World() { T.reset(); A.reset(); B.reset(); X.reset(); R.reset(); free(ext); free(ext2); }
};
static const int NOPS = 47;
static const char* OPN[NOPS] = {"SU_vector(d)", "SU_vector(list)", "SU_vector(matrix)", "make_aligned", "Projector", "Identity", "PosProjector", "NegProjector", "Generator", "copy-construct",
  "construct(A+B)", "construct(iCommutator)", "construct(move(copy)+B)", "T=A", "T=move(copy of A)", "T=A+B", "T=A-B", "T=-A", "T=A*s", "T=iCommutator(A,B)", "T=ACommutator(A,B)", "T=iCommutator(T,B) alias",
  "T+=ACommutator(T,B) alias", "T=A.Evolve(H,t)", "T=move(copy)+B steal", "T=ElementwiseProduct(A,move(copy))", "static_cast<SU_vector>(A+B)", "(A+B)-(A*2)", "(A+B)*(A-B) scalar", "(A+B).Evolve(H,t)",
  "A.Real()", "A.Imag()", "A.Rotate(i,j)", "A.Rotate(matrix)", "T.RotateToB0", "T.RotateToB1", "A.UTransform(matrix)", "A.UDaggerTransform(matrix)", "A.UTransform(V,scale)", "T.WeightedRotation(Const)",
  "T.WeightedRotation(matrix)", "A.GetComponents()", "-(A+B)", "T-=B*2 proxy",
  "T=move(external view)*s", "T=move(external view)+B", "construct(move(external view)-B)"};

static void build(World& w, ByteSource vals) {
  SU_vector::clear_mem_cache();
  int d = w.d;
  w.a.resize(d * d); w.b.resize(d * d); w.x.resize(d * d);
  for (auto& v : w.a) v = vals.dense(); for (auto& v : w.b) v = vals.dense(); for (auto& v : w.x) v = vals.dense();
  w.A.reset(new SU_vector(make_vec(w.a, d))); w.B.reset(new SU_vector(make_vec(w.b, d))); w.X.reset(new SU_vector(make_vec(w.x, d)));
  switch (w.tk) {
    case 0: w.T.reset(new SU_vector()); break;
    case 1: w.T.reset(new SU_vector(d)); break;
    case 2: w.T.reset(new SU_vector(w.d2)); break;
    default: free(w.ext); w.ext = (double*)malloc(sizeof(double) * d * d); w.T.reset(new SU_vector(d, w.ext)); break;
  }
  free(w.ext2); w.ext2 = (double*)malloc(sizeof(double) * 36); for (int k = 0; k < 36; k++) w.ext2[k] = 0.25 + 0.0625 * k;
  for (unsigned k = 0; k < w.T->Size(); k++) (*w.T)[k] = 0.5 + 0.125 * k;
  w.told = comps(*w.T);
  w.pv.SetMixingAngle(0, 1, 0.3); w.pw.SetMixingAngle(0, 1, -0.2); w.pv.SetPhase(0, 1, 0.1);
  if (w.primed) {  // park a few blocks of both dimensions in the cache
    std::vector<std::unique_ptr<SU_vector>> tmp;
    for (int k = 0; k < 3; k++) { tmp.emplace_back(new SU_vector(d)); tmp.emplace_back(new SU_vector(w.d2)); }
  }
}
static void run_op(World& w, int op) {
  SU_vector &A = *w.A, &B = *w.B, &T = *w.T;
  int d = w.d;
  switch (op) {
    case 0: w.R.reset(new SU_vector(d)); break;
    case 1: w.R.reset(new SU_vector(w.a)); break;
    case 2: { GslMat g(Mat::identity(d)); w.R.reset(new SU_vector(g.m)); break; }
    case 3: w.R.reset(new SU_vector(SU_vector::make_aligned(d))); break;
    case 4: w.R.reset(new SU_vector(SU_vector::Projector(d, 1))); break;
    case 5: w.R.reset(new SU_vector(SU_vector::Identity(d))); break;
    case 6: w.R.reset(new SU_vector(SU_vector::PosProjector(d, 1))); break;
    case 7: w.R.reset(new SU_vector(SU_vector::NegProjector(d, 1))); break;
    case 8: w.R.reset(new SU_vector(SU_vector::Generator(d, 2))); break;
    case 9: w.R.reset(new SU_vector(A)); break;
    case 10: w.R.reset(new SU_vector(A + B)); break;
    case 11: w.R.reset(new SU_vector(squids::iCommutator(A, B))); break;
    case 12: { SU_vector c = A; w.R.reset(new SU_vector(std::move(c) + B)); break; }
    case 13: T = A; break;
    case 14: { SU_vector c = A; T = std::move(c); break; }
    case 15: T = A + B; break;
    case 16: T = A - B; break;
    case 17: T = -A; break;
    case 18: T = A * 1.5; break;
    case 19: T = squids::iCommutator(A, B); break;
    case 20: T = squids::ACommutator(A, B); break;
    case 21: T = squids::iCommutator(T, B); break;
    case 22: T += squids::ACommutator(T, B); break;
    case 23: { SU_vector h(d); for (int q = 1; q < d; q++) h[d * q + q] = 0.2 * q; T = A.Evolve(h, 0.7); break; }
    case 24: { SU_vector c = A; T = std::move(c) + B; break; }
    case 25: { SU_vector c = A; T = squids::ElementwiseProduct(A, std::move(c)); break; }
    case 26: { SU_vector r = static_cast<SU_vector>(A + B); (void)r; break; }
    case 27: { SU_vector r = (A + B) - (A * 2.0); (void)r; break; }
    case 28: { volatile double r = (A + B) * (A - B); (void)r; break; }
    case 29: { SU_vector h(d); h[d + 1] = 0.3; SU_vector r = (A + B).Evolve(h, 0.5); (void)r; break; }
    case 30: { SU_vector r = A.Real(); (void)r; break; }
    case 31: { SU_vector r = A.Imag(); (void)r; break; }
    case 32: { SU_vector r = A.Rotate(0, 1, 0.3, 0.1); (void)r; break; }
    case 33: { GslMat g(Mat::identity(d)); SU_vector r = A.Rotate(g.m); (void)r; break; }
    case 34: T.RotateToB0(w.pv); break;
    case 35: T.RotateToB1(w.pv); break;
    case 36: { GslMat g(Mat::identity(d)); SU_vector r = A.UTransform(g.m); (void)r; break; }
    case 37: { GslMat g(Mat::identity(d)); SU_vector r = A.UDaggerTransform(g.m); (void)r; break; }
    case 38: { SU_vector r = A.UTransform(B, gsl_complex_rect(0, 0.3)); (void)r; break; }
    case 39: T.WeightedRotation(w.pv, B, w.pw); break;
    case 40: { auto V = w.pv.GetTransformationMatrix(d), W = w.pw.GetTransformationMatrix(d); T.WeightedRotation(V.get(), B, W.get()); break; }
    case 41: { std::vector<double> c = A.GetComponents(); (void)c; break; }
    case 42: { SU_vector r = -(A + B); (void)r; break; }
    case 43: T -= B * 2.0; break;
    // rvalue operands that do not own their storage (a view on a user buffer which outlives every vector of the case)
    case 44: { SU_vector v(d, w.ext2); T = std::move(v) * 2.0; break; }
    case 45: { SU_vector v(d, w.ext2); T = std::move(v) + B; break; }
    default: { SU_vector v(d, w.ext2); w.R.reset(new SU_vector(std::move(v) - B)); break; }
  }
}
// operations that use the target as a d-dimensional operand need a target of dimension d
static bool op_needs_target_dim(int op) { return op == 21 || op == 22 || op == 34 || op == 35 || op == 39 || op == 40 || op == 43; }

void run_case(ByteSource& s, CaseInfo& ci) {
  World shape;
  int op = (int)s.choose(NOPS);
  shape.d = gen_dim(s); shape.d2 = 2 + (shape.d - 2 + 1 + (int)s.choose(4)) % 5;
  shape.tk = (int)s.choose(4); shape.primed = s.flag();
  if (op_needs_target_dim(op) && (shape.tk == 0 || shape.tk == 2)) shape.tk = 1;
  if (shape.tk == 3 && (op == 34 || op == 35)) shape.tk = 1;
  size_t vpos = s.pos;
  ByteSource vals(s.p + std::min(vpos, s.n), s.n - std::min(vpos, s.n));
  std::string desc = fmt("%s | d=%d d2=%d target=%s cache=%s", OPN[op], shape.d, shape.d2, (const char*[]){"empty", "owned-same", "owned-other", "external"}[shape.tk], shape.primed ? "primed" : "empty");
  ci.sample = desc; ci.label(std::string("op-") + OPN[op]);
  std::string sig = std::string("C16|") + OPN[op];
  size_t live0; uint64_t bad0;
  { SU_vector::clear_mem_cache(); live0 = ledger::live_blocks(); bad0 = ledger::bad_delete_count(); }
  // counting run
  long N;
  bool expect_throw_rt = false;
  {
    World w; w.d = shape.d; w.d2 = shape.d2; w.tk = shape.tk; w.primed = shape.primed;
    build(w, vals);
    ledger::arm(-1);
    try { run_op(w, op); } catch (const std::runtime_error&) { expect_throw_rt = true; }
    N = ledger::disarm();
  }
  SU_vector::clear_mem_cache();
  CHECK(ledger::live_blocks() == live0, sig + "|leak-without-fault", "%zu blocks :: %s", ledger::live_blocks() - live0, desc.c_str());
  ci.label(fmt("allocs-%ld", std::min<long>(N, 9)));
  int fired_count = 0;
  for (long k = 0; k < N; k++) {
    std::string ctx = fmt("%s | failing allocation %ld of %ld", desc.c_str(), k, N);
    {
      World w; w.d = shape.d; w.d2 = shape.d2; w.tk = shape.tk; w.primed = shape.primed;
      build(w, vals);
      bool got_bad_alloc = false, got_other = false; std::string other;
      ledger::arm(k);
      try { run_op(w, op); }
      catch (const std::bad_alloc&) { got_bad_alloc = true; }
      catch (const std::exception& e) { got_other = true; other = e.what(); }
      ledger::disarm();
      bool fired = ledger::fired;
      if (!fired) continue;  // allocation pattern differed (e.g. served from the cache this time)
      fired_count++;
      CHECK(got_bad_alloc, sig + "|bad_alloc-did-not-propagate", "%s%s :: %s", got_other ? "other exception: " : "no exception", other.c_str(), ctx.c_str());
      // (1) bystanders unchanged
      for (int q = 0; q < w.d * w.d; q++) {
        CHECK(w.A->Size() == (unsigned)(w.d * w.d) && bit_equal((*w.A)[q], w.a[q]), sig + "|operand-changed-by-failed-operation", "A[%d] :: %s", q, ctx.c_str());
        CHECK(w.B->Size() == (unsigned)(w.d * w.d) && bit_equal((*w.B)[q], w.b[q]), sig + "|operand-changed-by-failed-operation", "B[%d] :: %s", q, ctx.c_str());
        CHECK(bit_equal((*w.X)[q], w.x[q]), sig + "|bystander-changed-by-failed-operation", "X[%d] :: %s", q, ctx.c_str());
      }
      // (2) no block is both cached and owned: fresh vectors must not land on live storage
      {
        std::vector<std::pair<const double*, int>> livep;  // (first component, number of components)
        for (SU_vector* v : {w.A.get(), w.B.get(), w.X.get(), w.T.get()}) {
          if (!v || v->Size() == 0) continue;
          CHECK(v->components != nullptr, sig + "|vector-claims-size-without-storage", "%s has dim=%u size=%u but no storage after the failed operation: any later same-size assignment writes through a null pointer :: %s",
                v == w.T.get() ? "target" : "operand", v->Dim(), v->Size(), ctx.c_str());
          livep.emplace_back(v->components, (int)v->Size());
        }
        std::vector<std::unique_ptr<SU_vector>> fresh;
        for (int dd = 2; dd <= 6; dd++) for (int r = 0; r < 40; r++) {
          fresh.emplace_back(new SU_vector(dd));
          const double* p = &(*fresh.back())[0];
          for (auto& q : livep) CHECK(!(p < q.first + q.second && q.first < p + dd * dd), sig + "|block-both-cached-and-owned", "a fresh vector of dimension %d was given storage %p overlapping live vector storage %p (%d components) :: %s", dd, (const void*)p, (const void*)q.first, q.second, ctx.c_str());
          livep.emplace_back(p, dd * dd);
        }
        // livep contains each fresh pointer once; overlap among fresh vectors was checked incrementally
      }
      // (3) everything can be reassigned ...
      for (SU_vector* v : {w.T.get(), w.A.get(), w.B.get()}) {
        bool ext_other_size = (v == w.T.get() && w.tk == 3 && v->Size() != w.X->Size());
        if (ext_other_size) continue;
        *v = *w.X;
        CHECK(v->Dim() == (unsigned)w.d, sig + "|reassignment-after-fault|dim", "%s", ctx.c_str());
        for (int q = 0; q < w.d * w.d; q++) CHECK(bit_equal((*v)[q], w.x[q]), sig + "|reassignment-after-fault|value", "slot %d :: %s", q, ctx.c_str());
      }
      for (int q = 0; q < w.d * w.d; q++) CHECK(bit_equal((*w.X)[q], w.x[q]), sig + "|bystander-changed-by-reassignment-after-fault", "X[%d] :: %s", q, ctx.c_str());
      // ... and destroyed (World destructor)
    }
    SU_vector::clear_mem_cache();
    CHECK(ledger::bad_delete_count() == bad0, sig + "|foreign-or-double-delete-after-fault", "%p :: %s", ledger::last_bad, ctx.c_str());
    CHECK(ledger::live_blocks() == live0, sig + "|leak-after-fault", "%ld block(s) :: %s", (long)ledger::live_blocks() - (long)live0, ctx.c_str());
  }
  ci.nontrivial = fired_count > 0;
  if (expect_throw_rt) ci.label("operation-throws-runtime_error");
  { std::string key = fmt("%d|%d|%d|%d|%d", op, shape.d, shape.d2, shape.tk, (int)shape.primed); ci.set_digest(fnv1a(key.data(), key.size())); }
  ci.label(fmt("faults-fired-%d", std::min(fired_count, 9)));
}

void enumerate(const Emit& emit, const std::string& tier) {
  for (int op = 0; op < NOPS; op++) for (int d = 2; d <= 6; d++) for (int o = 0; o < (tier == "quick" ? 2 : 4); o++) for (int tk = 0; tk < 4; tk++) for (int pr = 0; pr < 2; pr++) {
    std::vector<uint8_t> b = {(uint8_t)op, (uint8_t)(d - 2), (uint8_t)o, (uint8_t)tk, (uint8_t)pr};
    for (int k = 0; k < 60; k++) b.push_back((uint8_t)(17 * k + 3 * op + d));
    emit(b);
  }
}

// fixed finding 544636b: a failed allocation during a resizing assignment left the target inconsistent
void regressions() {
  for (int tk = 0; tk < 3; tk++) for (int op : {13, 15, 19}) {
    World w; w.d = 3; w.d2 = 4; w.tk = tk; w.primed = false;
    ByteSource vals(nullptr, 0);
    build(w, vals);
    ledger::arm(0);
    bool bad = false;
    try { run_op(w, op); } catch (const std::bad_alloc&) { bad = true; }
    ledger::disarm();
    if (!ledger::fired) continue;
    CHECK(bad, std::string("C16|") + OPN[op] + "|bad_alloc-did-not-propagate", "regression");
    CHECK(w.T->Size() == 0 || w.T->components != nullptr, std::string("C16|") + OPN[op] + "|vector-claims-size-without-storage", "regression: target kind %d", tk);
    *w.T = *w.X;
    CHECK(comps(*w.T) == w.x, std::string("C16|") + OPN[op] + "|reassignment-after-fault|value", "regression");
  }
  SU_vector::clear_mem_cache();
}
