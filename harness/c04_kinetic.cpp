// C04 - numerical evolution solves exactly the documented kinetic equation
#include "common/solver.h"

const char* PROPERTY = "C04";
const int LMAX = 1600;
const char* RULE =
    "rapidcheck byte strings decoded into a table-driven solver subclass: nx 1..4, nsun 2..6, nrhos 1..3, nscalars 0..3, all 32 switch masks "
    "(plus Set_AnyNumerics(false) over enabled terms), stepper in {rk2, rk4, rkf45, rkck, rk8pd} x {adaptive, fixed} plus msadams adaptive, "
    "t_ini in {0, +-O(1), +-1e3}, duration 0.1..1, random initial states written through state[ix].rho[ir] / scalar[is]; every term depends on ix, "
    "index and t through distinct coefficients; term families with an exact solution for the active mask: (A) manufactured analytic target with "
    "time-dependent non-commuting HI(t), GammaRho(t) and the source computed by the reference algebra, (B) constant non-commuting HI and Gamma "
    "(exp(-iK tau) rho exp(+iK^dagger tau), K=HI-i Gamma, long-double Taylor reference), (D) time-dependent diagonal HI(t) with constant diagonal "
    "Gamma and source in closed form; scalars: manufactured target, decay with time-dependent rate, or constant rate + source; disabled terms "
    "return 1e6-scale poison. Oracle: every node, matrix and scalar within tol (1+|state|) of the exact solution, tol = 1e-7 for fixed stepping "
    "(step count with truncation bound < 1e-8), 3e-6 adaptive rk* and 1e-5 msadams with abs=rel=1e-10 requested; Get_t = t_ini + dt; each enabled term was called for every (ix,index), only with indices in "
    "range and times inside the step interval; a GSL failure on a supported combination is a violation; in a quarter of the cases the fixed-step "
    "convergence order is checked instead; for source-free (linear) adaptive cases the state is scaled by 1e-6 or 1e6 with rel_error=1e-10 and a "
    "negligible abs_error and the same relative accuracy is demanded; (order check: halving the step must reduce the error by about 2^order for rk2/rk4/rkf45/rkck/rk8pd). Non-trivial: some term enabled with "
    "numerics on and every enabled term's first-order effect (|term| x duration) above 1e-3; distinct by digest of consumed bytes.";
void harness_init() { quiet_gsl(); }

// Convergence order of the fixed-step mode: halving the step must reduce the global error by about 2^order. This is a
// metamorphic relation on the library's own results (both runs against the same exact solution) and needs no calibrated
// accuracy bound; it is what exposes a right-hand side evaluated on a stale intermediate state.
static void order_check(ByteSource& s, CaseInfo& ci) {
  Problem p;
  p.nx = 1 + (int)s.choose(2); p.d = 2 + (int)s.choose(3); p.nr = 1 + (int)s.choose(2); p.ns = (int)s.choose(2);
  int stepper = (int)s.choose(5);
  unsigned mask = (1 + s.choose(3)) | (p.ns ? M_GS : 0);  // coherent and/or damping terms, no sources
  p.t_ini = s.flag() ? 0.0 : (double)s.range(-3, 3);
  p.family = s.flag() ? FAM_CONSTANT : FAM_DIAGONAL; p.manufactured_scalar = false; p.g_timedep = true;
  gen_problem_coeffs(s, p);
  double dur = 0.6 + 0.4 * s.unif01();
  static const unsigned base_steps[] = {300, 24, 16, 16, 4};
  static const double min_ratio[] = {3.0, 10.0, 10.0, 10.0, 60.0};  // 2^2, 2^4, 2^4..5, 2^4..5, 2^8 with slack
  std::vector<std::vector<double>> init;
  for (int ix = 0; ix < p.nx; ix++) for (int ir = 0; ir < p.nr; ir++) { std::vector<double> c(p.d * p.d); for (auto& x : c) x = 0.3 + s.dense(); init.push_back(c); }
  ld err[2];
  for (int pass = 0; pass < 2; pass++) {
    TSolver S(p);
    S.set_mask(mask, 0);
    S.Set_GSL_step(STEPPERS[stepper]); S.Set_AdaptiveStep(false); S.Set_NumSteps(base_steps[stepper] << pass);
    S.Set_rel_error(1e-2); S.Set_abs_error(1e-2); S.Set_h(1e-3);  // loose: GSL rejects a fixed step whose error estimate exceeds the tolerances
    size_t q = 0;
    for (int ix = 0; ix < p.nx; ix++) { for (int ir = 0; ir < p.nr; ir++, q++) for (int k = 0; k < p.d * p.d; k++) S.rho(ix, ir)[k] = init[q][k]; for (int is = 0; is < p.ns; is++) S.scalar(ix, is) = 1.0; }
    try { S.Evolve(dur); } catch (const std::exception& e) { throw Fail(fmt("C04|Evolve|throws|%s-fixed", STEPPER_NAMES[stepper]), fmt("order check: exception '%s'", e.what())); }
    ld t1 = (ld)S.Get_t(), worst = 0; q = 0;
    for (int ix = 0; ix < p.nx; ix++) {
      for (int ir = 0; ir < p.nr; ir++, q++) worst = std::max(worst, maxabs(toM(S.rho(ix, ir)) - p.exact_rho(ix, ir, toM(init[q], p.d), p.t_ini, t1, mask)));
      for (int is = 0; is < p.ns; is++) worst = std::max(worst, fabsl((ld)S.scalar(ix, is) - p.exact_scalar(ix, is, 1.0, p.t_ini, t1, mask)));
    }
    err[pass] = worst;
  }
  std::string desc = fmt("order check %s: nsun=%d nx=%d nrhos=%d nscalars=%d mask=%u family=%d dt=%.6g steps %u -> %u: error %.3Lg -> %.3Lg", STEPPER_NAMES[stepper], p.d, p.nx, p.nr, p.ns, mask, p.family, dur,
                         base_steps[stepper], base_steps[stepper] * 2, err[0], err[1]);
  ci.sample = desc; ci.label(fmt("order-%s", STEPPER_NAMES[stepper]));
  if (err[0] > 1e-9L && err[1] > 1e-13L) {
    ld ratio = err[0] / err[1];
    ci.nontrivial = true;
    ci.ratio(fmt("order-%s(min-ratio/observed)", STEPPER_NAMES[stepper]), (double)(min_ratio[stepper] / ratio));
    CHECK(ratio >= min_ratio[stepper], fmt("C04|fixed-step-convergence-order|%s", STEPPER_NAMES[stepper]), "halving the step reduced the error only by %.3Lg (expected >= %.3g) :: %s", ratio, min_ratio[stepper], desc.c_str());
  } else ci.label("order-check-at-rounding-floor");
}

void run_case(ByteSource& s, CaseInfo& ci) {
  if (s.choose(4) == 3) { order_check(s, ci); return; }
  Problem p;
  p.nx = 1 + (int)s.choose(4); p.d = gen_dim(s); p.nr = 1 + (int)s.choose(3); p.ns = (int)s.choose(4);
  unsigned mask = s.choose(32);
  int stepper = (int)s.choose(6);
  bool adaptive = stepper == 5 ? true : s.flag();
  unsigned tk = s.choose(5);
  p.t_ini = tk == 0 ? 0.0 : tk == 1 ? 2 * s.dense() : tk == 2 ? 1e3 * (0.5 + s.unif01()) : tk == 3 ? -1e3 * (0.5 + s.unif01()) : (double)s.range(-5, 5);
  double dur = 0.1 + 0.9 * s.unif01();
  if (stepper == 0 && !adaptive) dur = 0.05 + 0.1 * s.unif01();
  bool any_off = s.choose(8) == 0;  // Set_AnyNumerics(false) with terms enabled
  // family: manufactured needs the interaction switch; otherwise constant non-commuting or diagonal time-dependent
  if (mask & M_OTHER) p.family = s.choose(3) == 0 ? FAM_DIAGONAL : FAM_MANUFACTURED; else p.family = s.flag() ? FAM_CONSTANT : FAM_DIAGONAL;
  p.manufactured_scalar = (mask & M_OS) && s.flag();
  p.g_timedep = p.manufactured_scalar || !(mask & M_OS);
  gen_problem_coeffs(s, p);
  // Scale of the state. Without sources the equation is linear, so a state of overall size lambda must be integrated to the
  // same RELATIVE accuracy when a relative tolerance is requested together with a negligible absolute one.
  double lambda = 1.0;
  bool linear = !(mask & M_OTHER) && !(mask & M_OS) && p.family != FAM_MANUFACTURED;
  if (linear && adaptive && s.choose(3) == 0) lambda = s.flag() ? 1e-6 : 1e6;
  TSolver S(p);
  unsigned perm = s.choose(120);  // order in which the five switch setters are called
  S.set_mask(mask, perm);
  S.Set_GSL_step(STEPPERS[stepper]); S.Set_AdaptiveStep(adaptive);
  S.Set_rel_error(1e-10); S.Set_abs_error(lambda == 1.0 ? 1e-10 : 1e-12 * lambda); S.Set_h(1e-4); S.Set_h_max(0.05);
  if (!adaptive) { S.Set_rel_error(1e-7); S.Set_abs_error(1e-7); }  // GSL rejects a fixed step whose error estimate exceeds the tolerances; accuracy comes from the step count
  if (lambda != 1.0) ci.label(lambda < 1 ? "state-scale-1e-6" : "state-scale-1e6");
  unsigned nsteps = fixed_steps(stepper, dur);
  if (!adaptive) S.Set_NumSteps(nsteps);
  if (any_off) S.Set_AnyNumerics(false);
  std::string desc = fmt("nx=%d nsun=%d nrhos=%d nscalars=%d mask=%u(setter order %u)%s family=%d mscalar=%d stepper=%s/%s(%u) t_ini=%.17g dt=%.17g", p.nx, p.d, p.nr, p.ns, mask, perm, any_off ? "(AnyNumerics off)" : "",
                         p.family, (int)p.manufactured_scalar, STEPPER_NAMES[stepper], adaptive ? "adaptive" : "fixed", nsteps, p.t_ini, dur) + (lambda != 1.0 ? fmt(" state-scale=%g (rel_error 1e-10, abs_error %g)", lambda, 1e-12 * lambda) : std::string());
  ci.sample = desc;
  ci.label(fmt("mask-%u", mask)); ci.label(fmt("%s-%s", STEPPER_NAMES[stepper], adaptive ? "adaptive" : "fixed")); ci.label(fmt("family-%d", p.family));
  ci.label(fmt("nx%d", p.nx)); ci.label(fmt("nsun%d", p.d)); ci.label(fmt("nrhos%d", p.nr)); ci.label(fmt("nscalars%d", p.ns));
  if (any_off) ci.label("AnyNumerics-off");
  // initial states
  std::vector<std::vector<Mat>> r0(p.nx, std::vector<Mat>(p.nr));
  std::vector<std::vector<ld>> s0(p.nx, std::vector<ld>(p.ns));
  ld t0 = p.t_ini;
  for (int ix = 0; ix < p.nx; ix++) {
    for (int ir = 0; ir < p.nr; ir++) {
      std::vector<double> c(p.d * p.d);
      if (p.family == FAM_MANUFACTURED) { std::vector<ld> cc = fromM(p.target(ix, ir, t0)); for (int k = 0; k < p.d * p.d; k++) c[k] = (double)cc[k]; }
      else for (auto& x : c) x = lambda * (0.3 + s.dense());
      for (int k = 0; k < p.d * p.d; k++) S.rho(ix, ir)[k] = c[k];
      r0[ix][ir] = toM(c, p.d);
    }
    for (int is = 0; is < p.ns; is++) { double v = p.manufactured_scalar ? (double)p.starget(ix, is, t0) : lambda * (0.5 + s.unif01()); S.scalar(ix, is) = v; s0[ix][is] = v; }
  }
  // evolve
  try { S.Evolve(dur); }
  catch (const std::exception& e) { throw Fail(fmt("C04|Evolve|throws|%s-%s", STEPPER_NAMES[stepper], adaptive ? "adaptive" : "fixed"), fmt("exception '%s' :: %s", e.what(), desc.c_str())); }
  double t1d = p.t_ini + dur;
  CHECK(fabs(S.Get_t() - t1d) <= 4 * 2.3e-16 * (fabs(p.t_ini) + dur) && S.Get_t_initial() == p.t_ini, "C04|clock", "Get_t=%.17g expected %.17g :: %s", S.Get_t(), t1d, desc.c_str());
  ld t1 = (ld)S.Get_t();
  unsigned eff = any_off ? 0 : mask;
  // accuracy demanded per stepping mode (x (1+|state|)); calibrated on 96k thorough cases with >= 15x headroom over the worst
  // global error observed (fixed 2.2e-9, adaptive rk* 1.3e-7, msadams 6.7e-7) - GSL controls only the local error
  const ld TOLC = !adaptive ? 1e-7L : (stepper == 5 ? 1e-5L : 3e-6L);
  // exact solutions
  ld worst = 0;
  for (int ix = 0; ix < p.nx; ix++) {
    for (int ir = 0; ir < p.nr; ir++) {
      Mat want = p.exact_rho(ix, ir, r0[ix][ir], t0, t1, eff);
      Mat got = toM(S.rho(ix, ir));
      ld sc = (ld)lambda + maxabs(want);
      ld err = maxabs(got - want);
      worst = std::max(worst, err / (TOLC * sc));
      CHECK(err <= TOLC * sc, fmt("C04|rho-differs-from-exact-solution|family=%d", p.family), "node %d matrix %d: max entry error %.3Lg (scale %.3Lg) :: %s", ix, ir, err, sc, desc.c_str());
    }
    for (int is = 0; is < p.ns; is++) {
      ld want = p.exact_scalar(ix, is, s0[ix][is], t0, t1, eff);
      ld err = fabsl((ld)S.scalar(ix, is) - want);
      worst = std::max(worst, err / (TOLC * ((ld)lambda + fabsl(want))));
      CHECK(err <= TOLC * ((ld)lambda + fabsl(want)), "C04|scalar-differs-from-exact-solution", "node %d scalar %d: got %.17g exact %.17Lg :: %s", ix, is, S.scalar(ix, is), want, desc.c_str());
    }
  }
  ci.ratio(fmt("%s-%s", STEPPER_NAMES[stepper], adaptive ? "adaptive" : "fixed"), (double)worst);
  // call log
  CHECK(!S.log.bad_index, "C04|term-called-with-index-out-of-range", "%s", desc.c_str());
  if (eff) {
    ld slack = 1e-9L * (1 + fabsl(t0) + fabsl(t1));
    CHECK(S.log.tmin >= (double)(t0 - slack) && S.log.tmax <= (double)(t1 + slack), "C04|term-called-with-time-outside-step-interval", "times in [%.17g,%.17g], interval [%.17Lg,%.17Lg] :: %s", S.log.tmin, S.log.tmax, t0, t1, desc.c_str());
    for (int ix = 0; ix < p.nx; ix++) {
      for (int ir = 0; ir < p.nr; ir++) {
        if (eff & M_COH) CHECK(S.log.hi[ix * p.nr + ir] > 0, "C04|enabled-term-never-called|HI", "(%d,%d) :: %s", ix, ir, desc.c_str());
        if (eff & M_NC) CHECK(S.log.gr[ix * p.nr + ir] > 0, "C04|enabled-term-never-called|GammaRho", "(%d,%d) :: %s", ix, ir, desc.c_str());
        if (eff & M_OTHER) CHECK(S.log.ir[ix * p.nr + ir] > 0, "C04|enabled-term-never-called|InteractionsRho", "(%d,%d) :: %s", ix, ir, desc.c_str());
      }
      for (int is = 0; is < p.ns; is++) {
        if (eff & M_GS) CHECK(S.log.gs[ix * p.ns + is] > 0, "C04|enabled-term-never-called|GammaScalar", "(%d,%d) :: %s", ix, is, desc.c_str());
        if (eff & M_OS) CHECK(S.log.is[ix * p.ns + is] > 0, "C04|enabled-term-never-called|InteractionsScalar", "(%d,%d) :: %s", ix, is, desc.c_str());
      }
    }
  }
  // non-triviality: every enabled term has a first-order effect above 1e-3
  bool nt = eff != 0;
  if (nt) {
    if ((eff & M_COH) && maxabs(p.HI(0, 0, t0)) * dur < 1e-3) nt = false;
    if ((eff & M_NC) && maxabs(p.Gamma(0, 0, t0)) * dur < 1e-3) nt = false;
    if ((eff & M_OTHER) && maxabs(p.source(0, 0, t0, eff)) * dur < 1e-3) nt = false;
    if ((eff & (M_GS | M_OS)) && p.ns == 0 && !(eff & (M_COH | M_NC | M_OTHER))) nt = false;
  }
  ci.nontrivial = nt;
}
void enumerate(const Emit&, const std::string&) {}

// no defect of the pinned tree was found behind this property
void regressions() {}
