// C04 - numerical evolution solves exactly the documented kinetic equation
#include "common/solver.h"

const char* PROPERTY = "C04";
const int LMAX = 1600;
const char* RULE =
    "rapidcheck byte strings decoded into a table-driven solver subclass: nx 1..4, nsun 2..6, nrhos 1..3, nscalars 0..3, all 32 switch masks "
    "(plus Set_AnyNumerics(false) over enabled terms), stepper in {rk2, rk4, rkf45, rkck, rk8pd} x {adaptive, fixed} plus msadams adaptive, "
    "t_ini in {0, +-O(1), +-1e3}, duration 0.1..1, random initial states written through state[ix].rho[ir] / scalar[is]; every term depends on ix, "
    "index and t through distinct coefficients; term families with an exact solution for the active mask: (A) manufactured analytic target with "
    "time-dependent non-commuting HI(t), GammaRho(t) and the source computed by the reference algebra, (B) constant non-commuting HI and Gamma "
    "(exp(-iK tau) rho exp(+iK^dagger tau), K=HI-i Gamma, long-double Taylor reference), (D) time-dependent diagonal HI(t) with constant diagonal "
    "Gamma and source in closed form; scalars: manufactured target, decay with time-dependent rate, or constant rate + source; disabled terms "
    "return 1e6-scale poison. Oracle: every node, matrix and scalar within 1e-5 (1+|state|) of the exact solution (adaptive abs=rel=1e-10, or a "
    "fixed step count with truncation bound < 1e-8); Get_t = t_ini + dt; each enabled term was called for every (ix,index), only with indices in "
    "range and times inside the step interval; a GSL failure on a supported combination is a violation. Non-trivial: some term enabled with "
    "numerics on and every enabled term's first-order effect (|term| x duration) above 1e-3; distinct by digest of consumed bytes.";
void harness_init() { quiet_gsl(); }

void run_case(ByteSource& s, CaseInfo& ci) {
  Problem p;
  p.nx = 1 + (int)s.choose(4); p.d = gen_dim(s); p.nr = 1 + (int)s.choose(3); p.ns = (int)s.choose(4);
  unsigned mask = s.choose(32);
  int stepper = (int)s.choose(6);
  bool adaptive = stepper == 5 ? true : s.flag();
  unsigned tk = s.choose(5);
  p.t_ini = tk == 0 ? 0.0 : tk == 1 ? 2 * s.dense() : tk == 2 ? 1e3 * (0.5 + s.unif01()) : tk == 3 ? -1e3 * (0.5 + s.unif01()) : (double)s.range(-5, 5);
  double dur = 0.1 + 0.9 * s.unif01();
  if (stepper == 0 && !adaptive) dur = 0.05 + 0.1 * s.unif01();
  bool any_off = s.choose(8) == 0;  // Set_AnyNumerics(false) with terms enabled
  // family: manufactured needs the interaction switch; otherwise constant non-commuting or diagonal time-dependent
  if (mask & M_OTHER) p.family = s.choose(3) == 0 ? FAM_DIAGONAL : FAM_MANUFACTURED; else p.family = s.flag() ? FAM_CONSTANT : FAM_DIAGONAL;
  p.manufactured_scalar = (mask & M_OS) && s.flag();
  p.g_timedep = p.manufactured_scalar || !(mask & M_OS);
  gen_problem_coeffs(s, p);
  TSolver S(p);
  unsigned perm = s.choose(120);  // order in which the five switch setters are called
  S.set_mask(mask, perm);
  S.Set_GSL_step(STEPPERS[stepper]); S.Set_AdaptiveStep(adaptive);
  S.Set_rel_error(1e-10); S.Set_abs_error(1e-10); S.Set_h(1e-4); S.Set_h_max(0.05);
  unsigned nsteps = fixed_steps(stepper, dur);
  if (!adaptive) S.Set_NumSteps(nsteps);
  if (any_off) S.Set_AnyNumerics(false);
  std::string desc = fmt("nx=%d nsun=%d nrhos=%d nscalars=%d mask=%u(setter order %u)%s family=%d mscalar=%d stepper=%s/%s(%u) t_ini=%.17g dt=%.17g", p.nx, p.d, p.nr, p.ns, mask, perm, any_off ? "(AnyNumerics off)" : "",
                         p.family, (int)p.manufactured_scalar, STEPPER_NAMES[stepper], adaptive ? "adaptive" : "fixed", nsteps, p.t_ini, dur);
  ci.sample = desc;
  ci.label(fmt("mask-%u", mask)); ci.label(fmt("%s-%s", STEPPER_NAMES[stepper], adaptive ? "adaptive" : "fixed")); ci.label(fmt("family-%d", p.family));
  ci.label(fmt("nx%d", p.nx)); ci.label(fmt("nsun%d", p.d)); ci.label(fmt("nrhos%d", p.nr)); ci.label(fmt("nscalars%d", p.ns));
  if (any_off) ci.label("AnyNumerics-off");
  // initial states
  std::vector<std::vector<Mat>> r0(p.nx, std::vector<Mat>(p.nr));
  std::vector<std::vector<ld>> s0(p.nx, std::vector<ld>(p.ns));
  ld t0 = p.t_ini;
  for (int ix = 0; ix < p.nx; ix++) {
    for (int ir = 0; ir < p.nr; ir++) {
      std::vector<double> c(p.d * p.d);
      if (p.family == FAM_MANUFACTURED) { std::vector<ld> cc = fromM(p.target(ix, ir, t0)); for (int k = 0; k < p.d * p.d; k++) c[k] = (double)cc[k]; }
      else for (auto& x : c) x = 0.3 + s.dense();
      for (int k = 0; k < p.d * p.d; k++) S.rho(ix, ir)[k] = c[k];
      r0[ix][ir] = toM(c, p.d);
    }
    for (int is = 0; is < p.ns; is++) { double v = p.manufactured_scalar ? (double)p.starget(ix, is, t0) : 0.5 + s.unif01(); S.scalar(ix, is) = v; s0[ix][is] = v; }
  }
  // evolve
  try { S.Evolve(dur); }
  catch (const std::exception& e) { throw Fail(fmt("C04|Evolve|throws|%s-%s", STEPPER_NAMES[stepper], adaptive ? "adaptive" : "fixed"), fmt("exception '%s' :: %s", e.what(), desc.c_str())); }
  double t1d = p.t_ini + dur;
  CHECK(fabs(S.Get_t() - t1d) <= (8 + (adaptive ? 0 : 2.0 * nsteps)) * 2.3e-16 * (fabs(p.t_ini) + dur) && S.Get_t_initial() == p.t_ini, "C04|clock", "Get_t=%.17g expected %.17g :: %s", S.Get_t(), t1d, desc.c_str());
  ld t1 = (ld)S.Get_t();
  unsigned eff = any_off ? 0 : mask;
  // exact solutions
  ld worst = 0;
  for (int ix = 0; ix < p.nx; ix++) {
    for (int ir = 0; ir < p.nr; ir++) {
      Mat want = p.exact_rho(ix, ir, r0[ix][ir], t0, t1, eff);
      Mat got = toM(S.rho(ix, ir));
      ld sc = 1 + maxabs(want);
      ld err = maxabs(got - want);
      worst = std::max(worst, err / (1e-5L * sc));
      CHECK(err <= 1e-5L * sc, fmt("C04|rho-differs-from-exact-solution|family=%d", p.family), "node %d matrix %d: max entry error %.3Lg (scale %.3Lg) :: %s", ix, ir, err, sc, desc.c_str());
    }
    for (int is = 0; is < p.ns; is++) {
      ld want = p.exact_scalar(ix, is, s0[ix][is], t0, t1, eff);
      ld err = fabsl((ld)S.scalar(ix, is) - want);
      worst = std::max(worst, err / (1e-5L * (1 + fabsl(want))));
      CHECK(err <= 1e-5L * (1 + fabsl(want)), "C04|scalar-differs-from-exact-solution", "node %d scalar %d: got %.17g exact %.17Lg :: %s", ix, is, S.scalar(ix, is), want, desc.c_str());
    }
  }
  ci.ratio(fmt("%s-%s", STEPPER_NAMES[stepper], adaptive ? "adaptive" : "fixed"), (double)worst);
  // call log
  CHECK(!S.log.bad_index, "C04|term-called-with-index-out-of-range", "%s", desc.c_str());
  if (eff) {
    ld slack = 1e-9L * (1 + fabsl(t0) + fabsl(t1));
    CHECK(S.log.tmin >= (double)(t0 - slack) && S.log.tmax <= (double)(t1 + slack), "C04|term-called-with-time-outside-step-interval", "times in [%.17g,%.17g], interval [%.17Lg,%.17Lg] :: %s", S.log.tmin, S.log.tmax, t0, t1, desc.c_str());
    for (int ix = 0; ix < p.nx; ix++) {
      for (int ir = 0; ir < p.nr; ir++) {
        if (eff & M_COH) CHECK(S.log.hi[ix * p.nr + ir] > 0, "C04|enabled-term-never-called|HI", "(%d,%d) :: %s", ix, ir, desc.c_str());
        if (eff & M_NC) CHECK(S.log.gr[ix * p.nr + ir] > 0, "C04|enabled-term-never-called|GammaRho", "(%d,%d) :: %s", ix, ir, desc.c_str());
        if (eff & M_OTHER) CHECK(S.log.ir[ix * p.nr + ir] > 0, "C04|enabled-term-never-called|InteractionsRho", "(%d,%d) :: %s", ix, ir, desc.c_str());
      }
      for (int is = 0; is < p.ns; is++) {
        if (eff & M_GS) CHECK(S.log.gs[ix * p.ns + is] > 0, "C04|enabled-term-never-called|GammaScalar", "(%d,%d) :: %s", ix, is, desc.c_str());
        if (eff & M_OS) CHECK(S.log.is[ix * p.ns + is] > 0, "C04|enabled-term-never-called|InteractionsScalar", "(%d,%d) :: %s", ix, is, desc.c_str());
      }
    }
  }
  // non-triviality: every enabled term has a first-order effect above 1e-3
  bool nt = eff != 0;
  if (nt) {
    if ((eff & M_COH) && maxabs(p.HI(0, 0, t0)) * dur < 1e-3) nt = false;
    if ((eff & M_NC) && maxabs(p.Gamma(0, 0, t0)) * dur < 1e-3) nt = false;
    if ((eff & M_OTHER) && maxabs(p.source(0, 0, t0, eff)) * dur < 1e-3) nt = false;
    if ((eff & (M_GS | M_OS)) && p.ns == 0 && !(eff & (M_COH | M_NC | M_OTHER))) nt = false;
  }
  ci.nontrivial = nt;
}
void enumerate(const Emit&, const std::string&) {}
