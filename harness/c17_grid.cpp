// C17 - node grids are monotone with the requested ends; lookup brackets its argument
#include "common/lib.h"
#include <SQuIDS/SQuIDS.h>

const char* PROPERTY = "C17";
const int LMAX = 400;
const char* RULE =
    "enum: every nx in 2..130 x {linear, log, user-supplied non-uniform} with a fixed range and x at every node, every node +-1 ulp, every "
    "midpoint and both ends [exhaustive over the nx window]; pbt: nx up to 5000, scale linear/log, a<b classes (negative, straddling 0, nearly "
    "equal, 1e-10..1e12 for log), user grids (uniform, geometric, clustered, with ties; unsorted and wrongly sized ones must be rejected), x "
    "classes: node, node +-1 ulp, midpoint, random interior, a, b, outside by 1 ulp, far outside, +-inf; 0..2 earlier grids of any kind set on "
    "the same object first. Oracle: nodes non-decreasing, first "
    "node == a (linear) or within C eps (1+|log a|) (log), last within the same bound of b, deviation from the ideal arithmetic/geometric "
    "progression <= C eps scaled, vector overload bit-exact; Get_i(x): validity predicate i<=nx-2 and x_i<=x<=x_{i+1} (any valid i accepted "
    "with ties), exception iff x outside [x_first,x_last]. Non-trivial: nx-1 not a power of two, or a non-uniform grid, or x within 1 ulp of a "
    "node; distinct by digest of (grid kind, nx, range, x class).";
void harness_init() { quiet_gsl(); }

struct Grid : public squids::SQuIDS {
  Grid(unsigned nx) : squids::SQuIDS(nx, 2, 1, 0, 0.0) {}
  void reinit(unsigned nx) { ini(nx, 2, 1, 0, 0.0); }
};
static bool pow2(unsigned v) { return v && !(v & (v - 1)); }

static void check_lookup(const Grid& g, const std::vector<double>& x, double xi, const std::string& ctx, CaseInfo& ci) {
  unsigned nx = (unsigned)x.size();
  bool inside = xi >= x.front() && xi <= x.back();
  bool threw = false; unsigned i = 0;
  try { i = g.Get_i(xi); } catch (const std::exception&) { threw = true; }
  if (!inside) {
    CHECK(threw, "C17|Get_i|outside-not-rejected", "x=%.17g outside [%.17g,%.17g] returned %u :: %s", xi, x.front(), x.back(), i, ctx.c_str());
    ci.label("x-outside");
    return;
  }
  CHECK(!threw, "C17|Get_i|inside-rejected", "x=%.17g inside [%.17g,%.17g] raised :: %s", xi, x.front(), x.back(), ctx.c_str());
  CHECK(i <= nx - 2, "C17|Get_i|index-out-of-range", "x=%.17g -> %u with nx=%u :: %s", xi, i, nx, ctx.c_str());
  CHECK(x[i] <= xi && xi <= x[i + 1], fmt("C17|Get_i|not-bracketing|%s", pow2(nx - 1) ? "pow2" : "nonpow2"), "x=%.17g -> i=%u but x[i]=%.17g x[i+1]=%.17g (nx=%u) :: %s", xi, i, x[i], x[i + 1], nx, ctx.c_str());
}

// the ends the caller asked for are positions of the grid: Get_i(a) is the first interval, Get_i(b) the last one, and the
// neighbours just outside [a,b] are rejected (statement: "For a<=x<=b ... the last interval for x=b ... outside [a,b] it raises an error")
static void check_requested_ends(const Grid& g, const std::vector<double>& x, double a, double b, const std::string& ctx) {
  unsigned nx = (unsigned)x.size();
  for (int e = 0; e < 2; e++) {
    double xi = e ? b : a; bool threw = false; unsigned i = 0;
    try { i = g.Get_i(xi); } catch (const std::exception&) { threw = true; }
    CHECK(!threw, e ? "C17|Get_i|requested-end-b-rejected" : "C17|Get_i|requested-end-a-rejected", "Get_i(%.17g) raised; nodes run %.17g .. %.17g :: %s", xi, x.front(), x.back(), ctx.c_str());
    CHECK(i <= nx - 2 && x[i] <= xi && xi <= x[i + 1], "C17|Get_i|requested-end-not-bracketed", "Get_i(%.17g)=%u x[i]=%.17g x[i+1]=%.17g :: %s", xi, i, x[i], x[i + 1], ctx.c_str());
    if (e) CHECK(i == nx - 2, "C17|Get_i|b-not-in-last-interval", "Get_i(b=%.17g)=%u nx=%u :: %s", xi, i, nx, ctx.c_str());
    double out = ByteSource::ulp_step(xi, e ? 1 : -1); threw = false;
    try { i = g.Get_i(out); } catch (const std::exception&) { threw = true; }
    CHECK(threw, "C17|Get_i|outside-requested-range-not-rejected", "Get_i(%.17g) = %u although the range is [%.17g,%.17g] :: %s", out, i, a, b, ctx.c_str());
  }
}
static void check_grid_and_lookups(ByteSource& s, CaseInfo& ci, Grid& g, const std::vector<double>& x, const std::string& ctx, bool all_nodes) {
  unsigned nx = (unsigned)x.size();
  for (unsigned k = 0; k + 1 < nx; k++) CHECK(x[k] <= x[k + 1], "C17|grid|not-monotone", "x[%u]=%.17g > x[%u]=%.17g :: %s", k, x[k], k + 1, x[k + 1], ctx.c_str());
  for (unsigned k = 0; k < nx; k++) CHECK(bit_equal(g.Get_x(k), x[k]), "C17|Get_x|differs-from-Get_xrange", "k=%u", k);
  if (all_nodes) {
    for (unsigned k = 0; k < nx; k++) {
      check_lookup(g, x, x[k], ctx, ci);
      check_lookup(g, x, ByteSource::ulp_step(x[k], 1), ctx, ci);
      check_lookup(g, x, ByteSource::ulp_step(x[k], -1), ctx, ci);
      if (k + 1 < nx) check_lookup(g, x, x[k] + (x[k + 1] - x[k]) / 2, ctx, ci);
    }
    ci.label("x-all-nodes");
    return;
  }
  int nq = 1 + (int)s.choose(8);
  for (int q = 0; q < nq; q++) {
    unsigned xc = s.choose(10);
    unsigned k = (unsigned)(s.u16() % nx);
    double xi;
    static const char* names[] = {"x-node", "x-node+ulp", "x-node-ulp", "x-midpoint", "x-interior", "x-first", "x-last", "x-outside-ulp", "x-far-outside", "x-inf"};
    switch (xc) {
      case 0: xi = x[k]; break;
      case 1: xi = ByteSource::ulp_step(x[k], 1); break;
      case 2: xi = ByteSource::ulp_step(x[k], -1); break;
      case 3: { unsigned k2 = std::min(k, nx - 2); xi = x[k2] + (x[k2 + 1] - x[k2]) / 2; break; }
      case 4: xi = x.front() + (x.back() - x.front()) * s.unif01(); break;
      case 5: xi = x.front(); break;
      case 6: xi = x.back(); break;
      case 7: xi = s.flag() ? ByteSource::ulp_step(x.back(), 1) : ByteSource::ulp_step(x.front(), -1); break;
      case 8: xi = s.flag() ? x.back() + (fabs(x.back()) + 1) * 10 : x.front() - (fabs(x.front()) + 1) * 10; break;
      default: { unsigned w = s.choose(3); xi = w == 0 ? INFINITY : w == 1 ? -INFINITY : std::nan(""); if (w == 2) ci.label("x-nan"); break; }  // a NaN lies in no interval: rejected
    }
    ci.label(names[xc]);
    if (xc <= 2) ci.nontrivial = true;
    check_lookup(g, x, xi, ctx + fmt(" xclass=%s", names[xc]), ci);
  }
}

void run_case(ByteSource& s, CaseInfo& ci) {
  unsigned mode = s.choose(3);  // 0: nx window + all nodes, 1: random nx, 2: vector-overload rejection
  unsigned nx = mode == 0 ? 2 + s.u8() % 129 : 2 + s.u16() % 4999;
  if (mode == 1 && s.flag()) nx = 2 + s.u8() % 40;
  unsigned kind = s.choose(3);  // 0 linear, 1 log, 2 user
  static const char* kinds[] = {"linear", "log", "user"};
  if (!pow2(nx - 1)) ci.nontrivial = true;
  if (mode == 2) {
    nx = 2 + s.u8() % 30;
    Grid g(nx);
    g.Set_xrange(0.0, 1.0, "linear");
    std::vector<double> before = g.Get_xrange();
    unsigned bad = s.choose(2);
    std::vector<double> xs;
    if (bad == 0) {  // wrong size
      unsigned n2 = nx + 1 + s.choose(3); if (s.flag() && nx > 2) n2 = nx - 1;
      for (unsigned k = 0; k < n2; k++) xs.push_back((double)k);
      ci.label("reject-wrong-size");
    } else {  // unsorted
      for (unsigned k = 0; k < nx; k++) xs.push_back((double)k);
      unsigned i = s.u8() % (nx - 1); std::swap(xs[i], xs[i + 1]);
      ci.label("reject-unsorted");
    }
    ci.sample = fmt("Set_xrange(vector) rejection nx=%u given %zu values kind=%u", nx, xs.size(), bad);
    ci.nontrivial = true;
    bool threw = false;
    try { g.Set_xrange(xs); } catch (const std::exception&) { threw = true; }
    CHECK(threw, bad == 0 ? "C17|Set_xrange-vector|wrong-size-accepted" : "C17|Set_xrange-vector|unsorted-accepted", "%s", ci.sample.c_str());
    CHECK(g.Get_xrange() == before, "C17|Set_xrange-vector|grid-modified-by-rejected-call", "%s", ci.sample.c_str());
    return;
  }
  // (tail byte) the object may have had another number of nodes before: it is re-initialised to nx, and nothing of the old grid may remain
  unsigned rk = s.tail_choose(4);
  unsigned nx0 = rk == 1 ? nx + 1 + s.tail_choose(40) : rk == 2 ? std::max(2u, nx / 2) : nx;
  Grid g(nx0);
  if (nx0 != nx) { g.Set_xrange(0.0, (double)nx0, "linear"); g.reinit(nx); ci.label(nx0 > nx ? "reinitialised-with-fewer-nodes" : "reinitialised-with-more-nodes"); }
  // history: earlier grids set on the same object must leave no trace
  int npre = (int)s.choose(3);
  std::string pre;
  for (int k = 0; k < npre; k++) {
    unsigned pk = s.choose(3);
    if (pk == 0) { double a = s.num(8); g.Set_xrange(a, a + 0.5 + 4 * s.unif01(), "linear"); pre += "linear,"; }
    else if (pk == 1) { double a = 0.01 + s.unif01(); g.Set_xrange(a, a * (2 + 50 * s.unif01()), "log"); pre += "log,"; }
    else { std::vector<double> xs(nx); double cur = s.num(6); for (auto& v : xs) { v = cur; cur += 1e-3 + (fabs(cur) + 1) * std::min(0.5, 20.0 / nx) * s.unif01(); } g.Set_xrange(xs); pre += "vector,"; }
  }
  if (npre) { ci.label(fmt("history-%d", npre)); ci.nontrivial = true; }
  std::string ctx;
  std::vector<double> x;
  if (kind == 0) {
    unsigned rc = s.choose(5);
    double a, b;
    switch (rc) {
      case 0: a = 0; b = 1; break;
      case 1: a = -10 * s.unif01() - 0.1; b = -a * s.unif01() * 0.5 + a; if (!(b > a)) b = a / 2; break;  // both negative
      case 2: a = -10 * s.unif01() - 0.01; b = 10 * s.unif01() + 0.01; break;                            // straddling 0
      case 3: a = s.num(20); b = a + fabs(a) * std::ldexp(1.0 + s.unif01(), -s.range(20, 44)) + (a == 0 ? 1e-9 : 0); break;  // nearly equal
      default: a = s.num(30); b = a + std::ldexp(1.0 + s.unif01(), s.range(-20, 30)); break;
    }
    if (!(b > a)) { b = a + 1; }
    ctx = fmt("Set_xrange(%.17g,%.17g,linear) nx=%u", a, b, nx);
    g.Set_xrange(a, b, s.flag() ? "linear" : "Linear");
    x = g.Get_xrange();
    CHECK(x.size() == nx, "C17|grid|size", "%zu vs %u", x.size(), nx);
    ld sc = std::max(fabsl((ld)a), fabsl((ld)b));
    CHECK(x[0] == a, "C17|grid-linear|first-node", "x[0]=%.17g a=%.17g :: %s", x[0], a, ctx.c_str());
    CHECK(fabsl((ld)x[nx - 1] - (ld)b) <= 8 * EPS * sc, "C17|grid-linear|last-node", "x[last]=%.17g b=%.17g :: %s", x[nx - 1], b, ctx.c_str());
    for (unsigned k = 0; k < nx; k++) {
      ld ideal = (ld)a + ((ld)b - (ld)a) * (ld)k / (ld)(nx - 1);
      ld err = fabsl((ld)x[k] - ideal);
      ci.ratio("linear-spacing", (double)(err / (16 * EPS * sc + TINY)));
      CHECK(err <= 16 * EPS * sc + TINY, "C17|grid-linear|not-equally-spaced", "node %u = %.17g ideal %.17Lg :: %s", k, x[k], ideal, ctx.c_str());
    }
    check_requested_ends(g, x, a, b, ctx);
  } else if (kind == 1) {
    unsigned rc = s.choose(4);
    double a, b;
    switch (rc) {
      case 0: a = 1; b = 1e3; break;
      case 1: a = 1e-10 * (1 + s.unif01()); b = 1e12 * (0.5 + s.unif01()); break;
      case 2: a = std::pow(10.0, -10 + 20 * s.unif01()); b = a * (1 + std::ldexp(1.0 + s.unif01(), -s.range(1, 40))); break;  // nearly equal
      default: a = std::pow(10.0, -9.9 + 15 * s.unif01()); b = a * std::pow(10.0, 0.01 + 8 * s.unif01()); break;
    }
    if (a < 1e-10) a = 1e-10;
    if (!(b > a)) b = a * 2;
    ctx = fmt("Set_xrange(%.17g,%.17g,log) nx=%u", a, b, nx);
    g.Set_xrange(a, b, s.flag() ? "log" : "Log");
    x = g.Get_xrange();
    CHECK(x.size() == nx, "C17|grid|size", "%zu vs %u", x.size(), nx);
    ld la = logl((ld)a), lb = logl((ld)b);
    ld tol = 16 * EPS * (1 + fabsl(la) + fabsl(lb));
    CHECK(fabsl((ld)x[0] / (ld)a - 1) <= tol, "C17|grid-log|first-node", "x[0]=%.17g a=%.17g :: %s", x[0], a, ctx.c_str());
    CHECK(fabsl((ld)x[nx - 1] / (ld)b - 1) <= tol, "C17|grid-log|last-node", "x[last]=%.17g b=%.17g :: %s", x[nx - 1], b, ctx.c_str());
    for (unsigned k = 0; k < nx; k++) {
      CHECK(x[k] > 0 && std::isfinite(x[k]), "C17|grid-log|bad-node", "node %u = %g", k, x[k]);
      ld ideal = la + (lb - la) * (ld)k / (ld)(nx - 1);
      ld err = fabsl(logl((ld)x[k]) - ideal);
      ci.ratio("log-spacing", (double)(err / tol));
      CHECK(err <= tol, "C17|grid-log|not-equally-spaced-in-log", "node %u = %.17g log=%.17Lg ideal %.17Lg :: %s", k, x[k], logl((ld)x[k]), ideal, ctx.c_str());
    }
    check_requested_ends(g, x, a, b, ctx);
    ci.nontrivial = true;  // a geometric grid is non-uniform for the value-midpoint bisection
  } else {
    unsigned uk = s.choose(4);
    std::vector<double> xs(nx);
    double cur = s.num(10);
    for (unsigned k = 0; k < nx; k++) {
      double step;
      switch (uk) {
        case 0: step = 1.0; break;                                       // uniform
        case 1: step = (fabs(cur) + 1) * std::min(0.37, 25.0 / nx); break;   // geometric, overall ratio bounded
        case 2: step = std::ldexp(1.0, -(int)s.choose(40)); break;       // clustered
        default: step = s.choose(3) == 0 ? 0.0 : s.unif01() + 1e-3; break;  // with ties
      }
      xs[k] = cur; cur += step;
    }
    if (!(xs.back() > xs.front())) xs.back() = xs.front() + 1;
    static const char* uks[] = {"uniform", "geometric", "clustered", "ties"};
    ctx = fmt("Set_xrange(vector %s) nx=%u first=%.17g last=%.17g", uks[uk], nx, xs.front(), xs.back());
    g.Set_xrange(xs);
    x = g.Get_xrange();
    CHECK(x.size() == nx, "C17|grid|size", "%zu vs %u", x.size(), nx);
    for (unsigned k = 0; k < nx; k++) CHECK(bit_equal(x[k], xs[k]), "C17|Set_xrange-vector|not-stored-exactly", "node %u %.17g vs %.17g", k, x[k], xs[k]);
    if (uk != 0) ci.nontrivial = true;
    ci.label(std::string("user-") + uks[uk]);
  }
  ci.label(std::string("grid-") + kinds[kind]); ci.label(pow2(nx - 1) ? "nx-1-pow2" : "nx-1-nonpow2");
  if (npre) ctx += " after earlier grids on the same object: " + pre;
  ci.sample = ctx;
  check_grid_and_lookups(s, ci, g, x, ctx, mode == 0);
}

void enumerate(const Emit& emit, const std::string&) {
  for (unsigned nx = 2; nx <= 130; nx++)
    for (uint8_t kind = 0; kind < 3; kind++) {
      std::vector<uint8_t> b = {0, (uint8_t)(nx - 2), kind, 0 /* no earlier grid */};
      if (kind == 0) { b.push_back(0); b.push_back(1); }            // range class 0: [0,1], name flag
      else if (kind == 1) { b.push_back(0); b.push_back(1); }       // [1,1e3]
      else { b.push_back(1); for (int k = 0; k < 8; k++) b.push_back((uint8_t)(3 * k + 1)); }  // geometric user grid
      emit(b);
    }
}

// fixed finding e845f42: Get_i not bracketing for nx-1 not a power of two and for non-uniform grids
void regressions() {
  CaseInfo ci;
  for (unsigned nx : {3u, 4u, 6u, 7u, 11u, 100u}) for (int kind = 0; kind < 2; kind++) {
    Grid g(nx);
    if (kind == 0) g.Set_xrange(0.0, 1.0, "linear"); else g.Set_xrange(1.0, 1000.0, "log");
    std::vector<double> x = g.Get_xrange();
    for (unsigned k = 0; k < nx; k++) { check_lookup(g, x, x[k], "regression", ci); check_lookup(g, x, ByteSource::ulp_step(x[k], 1), "regression", ci); check_lookup(g, x, ByteSource::ulp_step(x[k], -1), "regression", ci); }
  }
  // 141ca22: the requested ends are positions of the grid (linear [0,0.7] nx=4 ended at 0.69999999999999984; log [3,5] nx=3 started above 3)
  { Grid g(4); g.Set_xrange(0.0, 0.7, "linear"); check_requested_ends(g, g.Get_xrange(), 0.0, 0.7, "regression linear [0,0.7] nx=4"); }
  { Grid g(3); g.Set_xrange(3.0, 5.0, "log"); check_requested_ends(g, g.Get_xrange(), 3.0, 5.0, "regression log [3,5] nx=3"); }
  { Grid g(2); g.Set_xrange(1.0, 1000.0, "log"); check_requested_ends(g, g.Get_xrange(), 1.0, 1000.0, "regression log [1,1000] nx=2"); }
  // ea43bba: a NaN position is rejected
  { Grid g(5); g.Set_xrange(0.0, 1.0, "linear"); check_lookup(g, g.Get_xrange(), std::nan(""), "regression NaN", ci); }
}
