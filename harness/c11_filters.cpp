// C11 - averaging and low-pass filters remove exactly the documented fast oscillations
#include "common/lib.h"
#include <SQuIDS/SQuIDS.h>

const char* PROPERTY = "C11";
const int LMAX = 600;
const char* RULE =
    "rapidcheck byte strings decoded into (d in 2..6; diagonal H with spectrum classes distinct / partially degenerate / fully degenerate / "
    "zero / dyadic levels; t, t0<t1; scale, cutoff, ramp of either sign incl. ramp=0, |ramp|=|cutoff| and |ramp|>|cutoff| (must raise); dense A; "
    "thresholds placed exactly on, 1 ulp around, or away from a pair's phase/frequency). Oracle, table level: the slot->level-pair map is learned "
    "from the consumer Evolve(buffer); exactly the pairs whose |omega t| exceeds |scale| are zeroed and flagged, the others bit-equal to the "
    "unaveraged table; LowPassFilter/AvgRampFilter multiply each slot by the documented piecewise-linear factor; a pair whose reference phase "
    "lies within the rounding slack of a threshold may take either branch. Matrix level: Evolve(buffer) entry (j,k) = A_jk exp(i w t) x factor. "
    "Interval form: entry = A_jk (exp(i w t1)-exp(i w t0))/(i w (t1-t0)) (1 for w=0) with the conditioning-aware tolerance of the documented "
    "closed form, and every table entry finite including coincident levels. Non-trivial: at least one pair filtered and one kept, or a "
    "degenerate pair in an interval average; distinct by digest of consumed bytes.";

static std::vector<std::pair<int, int>> PAIRMAP[7];
static void learn_map(int d) {
  // table = identity (cos 1, sin 0) except one slot: the pair it drives is the one whose entry changes
  int np = d * (d - 1) / 2;
  std::vector<double> a(d * d);
  for (int i = 0; i < d * d; i++) a[i] = 0.3 + 0.01 * i;
  SU_vector A = make_vec(a, d);
  Mat MA = toM(a, d);
  PAIRMAP[d].assign(np, std::make_pair(-1, -1));
  for (int p = 0; p < np; p++) {
    std::vector<double> buf(2 * np);
    for (int q = 0; q < np; q++) { buf[q] = 1.0; buf[np + q] = 0.0; }
    buf[p] = 0.0; buf[np + p] = 1.0;
    SU_vector R(A.Evolve(buf.data()));
    Mat MR = toM(R);
    int found = 0;
    for (int j = 0; j < d; j++) for (int k = j + 1; k < d; k++)
      if (cabsl_(MR.a[j][k] - MA.a[j][k]) > 1e-6L) { PAIRMAP[d][p] = std::make_pair(j, k); found++; }
    if (found != 1) { fprintf(stderr, "C11 harness cannot learn the slot->pair map for d=%d slot %d (found %d)\n", d, p, found); exit(2); }
  }
}
void harness_init() { quiet_gsl(); for (int d = 2; d <= 6; d++) learn_map(d); }

static std::vector<double> gen_H(ByteSource& s, int d, std::string* cls) {
  std::vector<double> h(d * d, 0.0);
  unsigned k = s.choose(6);
  static const char* names[] = {"distinct", "partially-degenerate", "fully-degenerate", "zero", "dyadic-diag", "integer-levels"};
  *cls = names[k];
  if (k == 3) return h;
  if (k == 4) { for (int m = 1; m < d; m++) h[d * m + m] = std::ldexp((double)s.range(-8, 8), -(int)s.choose(4)); if (s.flag()) h[0] = (double)s.range(-4, 4); return h; }
  std::vector<ld> E(d);
  switch (k) {
    case 0: for (int i = 0; i < d; i++) E[i] = (ld)(4 * s.dense()); break;
    case 1: { for (int i = 0; i < d; i++) E[i] = (ld)(4 * s.dense()); int i = (int)s.choose(d), j = (int)s.choose(d); E[j] = E[i]; break; }
    case 2: { ld e = (ld)s.num(4); for (int i = 0; i < d; i++) E[i] = e; break; }
    default: for (int i = 0; i < d; i++) E[i] = (ld)s.range(-5, 5); break;
  }
  Mat M(d); for (int i = 0; i < d; i++) M.a[i][i] = cld(E[i], 0);
  std::vector<ld> c = fromM(M);
  for (int i = 0; i < d * d; i++) h[i] = (double)c[i];
  return h;
}
static double gen_time(ByteSource& s) {
  unsigned k = s.choose(5);
  switch (k) { case 0: return (double)s.range(-8, 8); case 1: return 4 * s.dense(); case 2: return 100 * s.dense(); case 3: return std::ldexp(1.0, s.range(-20, 12)) * (s.flag() ? -1 : 1); default: return s.num(8); }
}
// threshold relative to the pair phases: on one, next to one, or free
static double gen_threshold(ByteSource& s, const std::vector<ld>& terms, const char** cls) {
  unsigned k = s.choose(5);
  double base = 0;
  if (!terms.empty()) base = (double)fabsl(terms[s.choose((unsigned)terms.size())]);
  double r;
  switch (k) {
    case 0: r = base; *cls = "thr-on-pair"; break;
    case 1: r = ByteSource::ulp_step(base, 1); *cls = "thr-ulp-above"; break;
    case 2: r = ByteSource::ulp_step(base, -1); *cls = "thr-ulp-below"; break;
    case 3: r = base * (0.5 + s.unif01()); *cls = "thr-near"; break;
    default: r = fabs(s.num(8)); *cls = "thr-free"; break;
  }
  if (s.flag()) r = -r;  // the code uses absolute values
  return r;
}
// piecewise-linear filter factor as a function of |term|
static ld ramp_factor(ld x, ld cutoff, ld ramp) {
  x = fabsl(x); cutoff = fabsl(cutoff); ramp = fabsl(ramp);
  if (x > cutoff) return 0;
  if (x > cutoff - ramp) return (cutoff - x) / ramp;
  return 1;
}

void run_case(ByteSource& s, CaseInfo& ci) {
  int d = gen_dim(s);
  int np = d * (d - 1) / 2;
  std::string hc;
  std::vector<double> h = gen_H(s, d, &hc);
  unsigned sub = s.choose(4);
  // (tail byte) interval averages of extremely slow oscillations over extremely short intervals: every input is a finite normal double,
  // the products w*t and w*(t1-t0) underflow; the average is then the unchanged entry
  bool underflow_class = sub == 3 && s.tail_at(48) % 8 == 1;
  if (underflow_class) { int e = 540 + (int)(s.tail_at(49) % 20); for (int k = 1; k < d; k++) h[d * k + k] = std::ldexp(h[d * k + k], -e); ci.label("interval-phase-underflows"); }
  std::vector<double> a = gen_dense(s, d);
  VecHolder hH, hA; SU_vector& H = hH.make(h, d, s.tail_choose(8)); SU_vector& A = hA.make(a, d, s.tail_choose(8));  // storage kinds must not matter
  ci.label(std::string("storage-H-") + hH.kind);
  Mat MH = toM(h, d), MA = toM(a, d);
  // level differences do not involve the identity component: read them off the traceless part
  std::vector<ld> E(d); { std::vector<double> h0 = h; h0[0] = 0; Mat M0 = toM(h0, d); for (int i = 0; i < d; i++) E[i] = M0.a[i][i].real(); }
  ld hdiag = 0; for (int k = 1; k < d; k++) hdiag += fabsl((ld)h[d * k + k]);
  ld amax = max_abs(a);
  std::vector<ld> w(np);  // |E_j-E_k| per slot
  for (int p = 0; p < np; p++) w[p] = E[PAIRMAP[d][p].first] - E[PAIRMAP[d][p].second];
  ci.label("H-" + hc);
  // exact-size heap buffers
  double* buf = (double*)malloc(sizeof(double) * 2 * np), *buf0 = (double*)malloc(sizeof(double) * 2 * np);
  struct Free { double *a, *b; ~Free() { free(a); free(b); } } fr{buf, buf0};
  auto matrix_check = [&](const double* table, const std::vector<cld>& factor, const std::string& sig, ld extra_rel, const std::string& ctx) {
    SU_vector R(A.Evolve(table));
    Mat want(d);
    for (int j = 0; j < d; j++) want.a[j][j] = MA.a[j][j];
    for (int p = 0; p < np; p++) { int j = PAIRMAP[d][p].first, k = PAIRMAP[d][p].second; want.a[j][k] = MA.a[j][k] * factor[p]; want.a[k][j] = std::conj(want.a[j][k]); }
    std::vector<ld> wc = fromM(want);
    for (int i = 0; i < d * d; i++) {
      ld tol = (extra_rel + 32) * EPS * amax * 2;
      ld err = fabsl((ld)R[i] - wc[i]);
      ci.ratio(sig, (double)(err / (tol + TINY)));
      CHECK(err <= tol + TINY, "C11|" + sig + fmt("|d=%d", d), "slot %d lib=%.17g model=%.17Lg err=%.3Lg tol=%.3Lg :: %s", i, R[i], wc[i], err, tol, ctx.c_str());
    }
  };
  if (sub == 0) {  // PrepareEvolve with averaging scale
    double t = gen_time(s);
    std::vector<ld> terms(np); for (int p = 0; p < np; p++) terms[p] = w[p] * (ld)t;
    const char* tc; double scale = gen_threshold(s, terms, &tc);
    ci.label("avg-scale"); ci.label(tc);
    ci.sample = fmt("PrepareEvolve(avg) d=%d H=%s t=%.17g scale=%.17g A=%s", d, vec_str(h).c_str(), t, scale, vec_str(a).c_str());
    std::vector<bool> avr(np + (int)s.choose(3), s.flag());  // stale flags, possibly longer than needed
    size_t avn = avr.size();
    for (int i = 0; i < 2 * np; i++) buf[i] = 5e55;
    H.PrepareEvolve(buf0, t);
    H.PrepareEvolve(buf, t, scale, avr);
    CHECK(avr.size() == avn, "C11|avg|flag-vector-resized", "%zu -> %zu", avn, avr.size());
    ld slack = 32 * EPS * fabsl((ld)t) * hdiag;
    int nf = 0, nk = 0; bool zone = false;
    std::vector<cld> factor(np);
    for (int p = 0; p < np; p++) {
      ld x = fabsl(terms[p]), thr = fabsl((ld)scale);
      bool must_filter = x > thr + slack, must_keep = x <= thr - slack || (x <= thr && slack == 0);
      bool filtered = avr[p];
      bool zeroed = buf[p] == 0 && buf[np + p] == 0;
      bool kept = bit_equal(buf[p], buf0[p]) && bit_equal(buf[np + p], buf0[np + p]);
      std::string ctx = fmt("slot %d pair (%d,%d) |w t|=%.17Lg |scale|=%.17Lg flag=%d table=(%.17g,%.17g) unaveraged=(%.17g,%.17g) :: %s", p, PAIRMAP[d][p].first, PAIRMAP[d][p].second, x, thr, (int)filtered, buf[p], buf[np + p], buf0[p], buf0[np + p], ci.sample.c_str());
      if (must_filter) CHECK(filtered && zeroed, fmt("C11|avg|pair-over-threshold-not-removed|d=%d", d), "%s", ctx.c_str());
      else if (must_keep) CHECK(!filtered && kept, fmt("C11|avg|pair-under-threshold-altered|d=%d", d), "%s", ctx.c_str());
      else { zone = true; CHECK((filtered && zeroed) || (!filtered && kept), fmt("C11|avg|flag-and-table-inconsistent|d=%d", d), "%s", ctx.c_str()); }
      if (filtered) nf++; else nk++;
      ld ph = terms[p];
      factor[p] = filtered ? cld(0, 0) : cld(cosl(ph), sinl(ph));
    }
    ci.nontrivial = nf > 0 && nk > 0;
    if (zone) ci.label("threshold-zone");
    matrix_check(buf, factor, "avg|matrix", 64 * fabsl((ld)t) * hdiag, ci.sample);
  } else if (sub == 1 || sub == 2) {  // LowPassFilter (frequency) / AvgRampFilter (phase)
    bool lowpass = sub == 1;
    double t = gen_time(s);
    std::vector<ld> terms(np); for (int p = 0; p < np; p++) terms[p] = lowpass ? w[p] : w[p] * (ld)t;
    const char* tc; double cutoff = gen_threshold(s, terms, &tc);
    unsigned rk = s.choose(6);
    double ramp;
    switch (rk) { case 0: ramp = 0; break; case 1: ramp = cutoff; break; case 2: ramp = fabs(cutoff) * s.unif01(); break; case 3: ramp = -fabs(cutoff) * s.unif01(); break;
                  case 4: ramp = fabs(cutoff) * (1 + s.unif01()) + (cutoff == 0 ? 1 : 0); break; default: ramp = ByteSource::ulp_step(fabs(cutoff), 1); break; }
    bool must_throw = fabs(ramp) > fabs(cutoff);
    ci.label(lowpass ? "lowpass" : "avgramp"); ci.label(tc); ci.label(fmt("ramp-kind-%u", rk));
    ci.sample = fmt("%s d=%d H=%s t=%.17g cutoff=%.17g ramp=%.17g A=%s", lowpass ? "LowPassFilter" : "AvgRampFilter", d, vec_str(h).c_str(), t, cutoff, ramp, vec_str(a).c_str());
    H.PrepareEvolve(buf0, t);
    memcpy(buf, buf0, sizeof(double) * 2 * np);
    bool threw = false;
    try { if (lowpass) H.LowPassFilter(buf, cutoff, ramp); else H.AvgRampFilter(buf, t, cutoff, ramp); }
    catch (const std::runtime_error&) { threw = true; }
    CHECK(threw == must_throw, fmt("C11|%s|ramp-wider-than-cutoff-check", lowpass ? "lowpass" : "avgramp"), "threw=%d expected=%d :: %s", (int)threw, (int)must_throw, ci.sample.c_str());
    if (threw) {
      for (int i = 0; i < 2 * np; i++) CHECK(bit_equal(buf[i], buf0[i]), fmt("C11|%s|table-modified-before-throw", lowpass ? "lowpass" : "avgramp"), "entry %d", i);
      ci.nontrivial = true; return;
    }
    ld slack = 32 * EPS * hdiag * (lowpass ? 1 : fabsl((ld)t));
    int n0 = 0, n1 = 0, nr = 0; bool zone = false; ld maxdf = 0;
    std::vector<cld> factor(np);
    for (int p = 0; p < np; p++) {
      ld x = fabsl(terms[p]);
      ld fhi = ramp_factor(std::max<ld>(x - slack, 0), cutoff, ramp), flo = ramp_factor(x + slack, cutoff, ramp), fm = ramp_factor(x, cutoff, ramp);
      if (fhi - flo > 1e-9L) zone = true;
      maxdf = std::max(maxdf, fhi - flo);
      if (fm == 0) n0++; else if (fm == 1) n1++; else nr++;
      for (int q = 0; q < 2; q++) {
        ld before = buf0[q * np + p], after = buf[q * np + p];
        ld lo = std::min(before * flo, before * fhi), hi = std::max(before * flo, before * fhi);
        ld tol = 8 * EPS * fabsl(before) + TINY;
        CHECK(after >= lo - tol && after <= hi + tol, fmt("C11|%s|wrong-factor|d=%d", lowpass ? "lowpass" : "avgramp", d),
              "slot %d (%s) pair (%d,%d) |term|=%.17Lg before=%.17Lg after=%.17Lg expected factor in [%.17Lg,%.17Lg] :: %s", p, q ? "sin" : "cos", PAIRMAP[d][p].first, PAIRMAP[d][p].second, x, before, after, flo, fhi, ci.sample.c_str());
      }
      ld ph = w[p] * (ld)t;
      factor[p] = cld(cosl(ph), sinl(ph)) * fm;
    }
    ci.nontrivial = (n0 > 0 && n1 + nr > 0) || nr > 0;
    if (nr) ci.label("in-ramp");
    if (zone) ci.label("threshold-zone");
    else matrix_check(buf, factor, lowpass ? "lowpass|matrix" : "avgramp|matrix", 64 * fabsl((ld)t) * hdiag + 2 * maxdf / EPS, ci.sample);
  } else {  // interval average
    double t0 = gen_time(s), dt = fabs(gen_time(s));
    if (dt == 0) dt = 1;
    // interval shapes taken from the tail of the byte string (added later; the forward decoding is unchanged): long baselines and
    // narrow intervals make w*(t1-t0) small without the levels being close - the average stays well conditioned
    unsigned tk = s.tail_choose(4), dk = s.tail_choose(4);
    if (tk == 1) t0 = std::ldexp(1.0 + s.tail_u8() / 256.0, (int)s.tail_choose(41)) * (s.tail_choose(2) ? -1 : 1);
    if (dk == 1) dt = std::ldexp(1.0 + s.tail_u8() / 256.0, -(int)(10 + s.tail_choose(41)));
    if (underflow_class) { int e = 520 + (int)(s.tail_at(50) % 20); t0 = std::ldexp(1.0 + s.tail_at(51) / 256.0, -e); dt = std::ldexp(1.0 + s.tail_at(52) / 256.0, -e); dk = 0; }
    double t1 = t0 + dt;
    if (dk == 2) { t1 = t0; for (unsigned u = 0, n = 1 + s.tail_choose(3); u < n; u++) t1 = ByteSource::ulp_step(t1, 1); }
    if (!(t1 > t0)) { t1 = ByteSource::ulp_step(t0, 1); }
    ci.label(tk == 1 ? "interval-long-baseline" : "interval-baseline-O(1)"); ci.label(dk == 1 ? "interval-narrow" : dk == 2 ? "interval-few-ulps" : "interval-width-O(1)");
    ci.label("interval");
    ci.sample = fmt("PrepareEvolve(t0,t1) d=%d H=%s t0=%.17g t1=%.17g A=%s", d, vec_str(h).c_str(), t0, t1, vec_str(a).c_str());
    for (int i = 0; i < 2 * np; i++) buf[i] = 5e55;
    H.PrepareEvolve(buf, t0, t1);
    bool degenerate = false;
    for (int p = 0; p < np; p++) {
      if (w[p] == 0) degenerate = true;
      CHECK(std::isfinite(buf[p]) && std::isfinite(buf[np + p]), fmt("C11|interval|nonfinite-table|d=%d", d), "slot %d pair (%d,%d) w=%.17Lg table=(%g,%g) :: %s", p, PAIRMAP[d][p].first, PAIRMAP[d][p].second, w[p], buf[p], buf[np + p], ci.sample.c_str());
    }
    ci.nontrivial = degenerate || np > 0;
    if (degenerate) ci.label("interval-degenerate");
    ld range = (ld)t1 - (ld)t0, tm = ((ld)t0 + (ld)t1) / 2;
    SU_vector R(A.Evolve(buf));
    Mat want(d), tolm(d);
    for (int j = 0; j < d; j++) want.a[j][j] = MA.a[j][j];
    for (int p = 0; p < np; p++) {
      int j = PAIRMAP[d][p].first, k = PAIRMAP[d][p].second;
      ld x = w[p] * range / 2;
      ld sinc = x == 0 ? 1 : sinl(x) / x;
      cld f = cld(cosl(w[p] * tm), sinl(w[p] * tm)) * sinc;
      want.a[j][k] = MA.a[j][k] * f; want.a[k][j] = std::conj(want.a[j][k]);
      // the average is a well-conditioned function of (w, t0, t1): only the rounding of the phases w*t enters. (Until fix 98f828e this
      // tolerance also carried a 1/(w*range) term that excused the cancellation of the difference quotient the library used - the check
      // had been fitted to the implementation instead of the statement.)
      ld phase_err = 64 * EPS * hdiag * (fabsl((ld)t0) + fabsl((ld)t1));
      ld rel = 64 * EPS + phase_err;
      tolm.a[j][k] = cld(std::min<ld>(rel, 2.0L), 0);
    }
    Mat MR = toM(R);
    for (int p = 0; p < np; p++) {
      int j = PAIRMAP[d][p].first, k = PAIRMAP[d][p].second;
      ld tol = tolm.a[j][k].real() * cabsl_(MA.a[j][k]);
      ld err = cabsl_(MR.a[j][k] - want.a[j][k]);
      ci.ratio("interval", (double)(err / (tol + TINY)));
      CHECK(err <= tol + TINY, fmt("C11|interval|not-time-average|d=%d", d), "pair (%d,%d) w=%.17Lg lib=%.17Lg%+.17Lgi model=%.17Lg%+.17Lgi err=%.3Lg tol=%.3Lg :: %s", j, k, w[p],
            MR.a[j][k].real(), MR.a[j][k].imag(), want.a[j][k].real(), want.a[j][k].imag(), err, tol, ci.sample.c_str());
      // all diagonal components exactly zero: every frequency is exactly zero inside the library too
      if (hdiag == 0) CHECK(buf[p] == 1.0 && buf[np + p] == 0.0, fmt("C11|interval|degenerate-pair-not-limit|d=%d", d), "slot %d table=(%.17g,%.17g)", p, buf[p], buf[np + p]);
    }
    for (int j = 0; j < d; j++) CHECK(cabsl_(MR.a[j][j] - MA.a[j][j]) <= 64 * d * EPS * amax, fmt("C11|interval|diagonal-changed|d=%d", d), "entry %d", j);
  }
}
void enumerate(const Emit&, const std::string&) {}

// fixed finding 15cf8dd: NaN table entries of PrepareEvolve(buf,t0,t1) for coincident levels
void regressions() {
  for (int d = 2; d <= 6; d++) for (double c0 : {0.0, 1.5}) {
    int np = d * (d - 1) / 2;
    SU_vector H(d); H[0] = c0;
    std::vector<double> buf(2 * np, 5e55);
    H.PrepareEvolve(buf.data(), -8.0, 0.0);
    for (int p = 0; p < np; p++) CHECK(buf[p] == 1.0 && buf[np + p] == 0.0, fmt("C11|interval|nonfinite-table|d=%d", d), "regression: slot %d = (%g,%g) for fully degenerate H", p, buf[p], buf[np + p]);
  }
  // 98f828e: cancellation in the interval averages. d=2, level splitting w (H[3] = w/2): the table holds <cos(w t)>, <sin(w t)> over [t0,t1]
  struct { double w, t0, t1; } cases[] = {{1.0, 1.0, 1.0 + 1e-12}, {1e-12, 1e12, 1e12 + 1.0}, {1.0, 1.0, std::nextafter(std::nextafter(1.0, 2.0), 2.0)}, {0.03125, -8.0, -8.0 + 7.62939453125e-06}};
  for (auto& c : cases) {
    SU_vector H(2); H[3] = c.w / 2;
    double buf[2] = {5e55, 5e55};
    H.PrepareEvolve(buf, c.t0, c.t1);
    ld wl = 2 * (ld)H[3], tm = ((ld)c.t0 + (ld)c.t1) / 2, y = wl * ((ld)c.t1 - (ld)c.t0) / 2, sinc = y == 0 ? 1 : sinl(y) / y;
    ld wc = cosl(wl * tm) * sinc, ws = sinl(wl * tm) * sinc;
    ld tol = 64 * EPS * (1 + fabsl(wl) * (fabsl((ld)c.t0) + fabsl((ld)c.t1)));
    CHECK(fabsl(fabsl((ld)buf[0]) - fabsl(wc)) <= tol && fabsl(fabsl((ld)buf[1]) - fabsl(ws)) <= tol, "C11|interval|not-time-average|d=2",
          "regression: w=%g [%.17g,%.17g]: table (%.17g,%.17g), exact averages (%.17Lg,%.17Lg)", c.w, c.t0, c.t1, buf[0], buf[1], wc, ws);
  }
}
