// C06 - basis rotations are unitary similarity maps, consistent across all entry points
#include "common/lib.h"
#include <SQuIDS/const.h>

const char* PROPERTY = "C06";
const int LMAX = 700;
const char* RULE =
    "enum: all 35 plane-rotation kernels (d, i<j) x 7 angle classes x 7 phase classes with a fixed dense A [exhaustive over the kernel axis]; "
    "pbt: the same kernels with generated A/angles/phases {0, pi/2, pi, negative, >2pi, 1e3, random}; Const objects with all 15 angle/phase "
    "pairs set; constructed unitaries (products of plane rotations and phases) for Rotate(U)/UTransform(U)/UDaggerTransform(U); "
    "Hermitian Yd for the two WeightedRotation overloads; parameter store over all (state1,state2) in 0..7 and upperState in 0..7; histories on one "
    "Const object interleaving SetMixingAngle/SetPhase with GetTransformationMatrix (several dimensions), RotateToB1 and UTransform(U). "
    "Oracle: components vs fromM(R^dagger A R), fromM(U^dagger A U), fromM(U A U^dagger) in the long-double model with tolerance "
    "C eps d^2 max|a| (x number of chained rotations); U from GetTransformationMatrix unitary and equal to the ordered product of plane "
    "rotations; RotateToB0 inverse of RotateToB1; scalar products and identity component preserved; WeightedRotation overloads agree; "
    "setters/getters bit-exact and exactly the out-of-range index pairs raise. Non-trivial: sin(theta) not ~0 for some rotation involved "
    "and A has non-zero components in the rows/columns touched (or a parameter-store case with an invalid index); distinct by bytes.";
void harness_init() { quiet_gsl(); }
using squids::Const;

static double gen_angle(ByteSource& s, const char** cls = nullptr) {
  static const char* names[] = {"0", "pi/2", "pi", "negative", ">2pi", "1e3", "random"};
  unsigned k = s.choose(7);
  if (cls) *cls = names[k];
  // (tail byte) angles far below 1e-8, where cos(theta) rounds to 1 but the rotation is still a first-order change of the vector
  if (s.tail_choose(8) == 1) { if (cls) *cls = "tiny"; return std::ldexp(1.0 + s.tail_u8() / 256.0, -(int)(20 + s.tail_choose(31))) * (s.tail_choose(2) ? -1 : 1); }
  switch (k) {
    case 0: return 0.0;
    case 1: return M_PI / 2;
    case 2: return M_PI;
    case 3: return -3.0 * s.unif01() - 0.01;
    case 4: return 2 * M_PI + 20 * s.unif01();
    case 5: return 1e3 * (0.5 + s.unif01());
    default: return 3.2 * s.unif();
  }
}
static ld amax_of(const std::vector<double>& a) { return max_abs(a); }
static void cmp(const SU_vector& got, const Mat& want, ld tol, const std::string& sig, const std::string& ctx, CaseInfo& ci, const char* rlabel) {
  int d = want.n;
  CHECK((int)got.Dim() == d, sig + "|dim", "%s", ctx.c_str());
  std::vector<ld> w = fromM(want);
  for (int i = 0; i < d * d; i++) {
    ld err = fabsl((ld)got[i] - w[i]);
    CHECK(err <= tol + TINY, sig, "slot %d lib=%.17g model=%.17Lg err=%.3Lg tol=%.3Lg :: %s", i, got[i], w[i], err, tol, ctx.c_str());
    ci.ratio(rlabel, (double)(err / (tol + TINY)));
  }
}
static void fill_const(ByteSource& s, Const& p, double th[6][6], double de[6][6], bool* nontrivial_angle) {
  unsigned pattern = s.choose(4);  // 0: all zero, 1: one pair, 2: all random, 3: classes
  for (int i = 0; i < 6; i++) for (int j = 0; j < 6; j++) th[i][j] = de[i][j] = 0;
  if (pattern == 0) return;
  int oi = (int)s.choose(5), oj = oi + 1 + (int)s.choose(5 - oi);
  for (int j = 1; j < 6; j++) for (int i = 0; i < j; i++) {
    if (pattern == 1 && !(i == oi && j == oj)) continue;
    th[i][j] = pattern == 2 ? 3.2 * s.unif() : gen_angle(s);
    de[i][j] = pattern == 2 ? 3.2 * s.unif() : gen_angle(s);
    p.SetMixingAngle(i, j, th[i][j]);
    p.SetPhase(i, j, de[i][j]);
    if (fabs(sin(th[i][j])) > 1e-3) *nontrivial_angle = true;
  }
}
static Mat model_U(int d, double th[6][6], double de[6][6]) {
  Mat U = Mat::identity(d);
  for (int j = 1; j < d; j++) for (int i = 0; i < j; i++) U = plane_rotation(d, i, j, (ld)th[i][j], (ld)de[i][j]) * U;
  return U;
}

void run_case(ByteSource& s, CaseInfo& ci) {
  unsigned sub = s.choose(6);
  int d = gen_dim(s);
  switch (sub) {
    case 0: {  // one plane rotation kernel
      int i = (int)s.choose(d - 1), j = i + 1 + (int)s.choose(d - 1 - i);
      const char *ca, *cd;
      double th = gen_angle(s, &ca), de = gen_angle(s, &cd);
      std::string pa;
      std::vector<double> a = s.flag() ? gen_dense(s, d) : gen_components(s, d, &pa, 30);
      ci.label(fmt("kernel-%d_%d%d", d, i + 1, j + 1)); ci.label(std::string("theta-") + ca); ci.label(std::string("delta-") + cd);
      ci.sample = fmt("Rotate d=%d (%d,%d) theta=%.17g delta=%.17g A=%s", d, i, j, th, de, vec_str(a).c_str());
      bool touched = false;
      Mat MA = toM(a, d);
      for (int k = 0; k < d; k++) if (MA.a[i][k] != cld(0, 0) || MA.a[j][k] != cld(0, 0)) touched = true;
      ci.nontrivial = fabs(sin(th)) > 1e-3 && touched;
      VecHolder hA; SU_vector& A = hA.make(a, d, s.tail_choose(8)); ci.label(std::string("storage-") + hA.kind);
      SU_vector R = A.Rotate(i, j, th, de);
      Mat RM = plane_rotation(d, i, j, (ld)th, (ld)de);
      Mat want = dagger(RM) * MA * RM;
      ld tol = 64 * d * d * EPS * amax_of(a);
      cmp(R, want, tol, fmt("C06|Rotate-plane|not-similarity|%d_%d%d", d, i + 1, j + 1), ci.sample, ci, "rotate-plane");
      CHECK(comps(A) == a, "C06|Rotate-plane|operand-modified", "%s", ci.sample.c_str());
      // identity component and scalar product preserved
      CHECK(fabsl((ld)R[0] - (ld)a[0]) <= tol + TINY, fmt("C06|Rotate-plane|identity-component|%d_%d%d", d, i + 1, j + 1), "%.17g -> %.17g", a[0], R[0]);
      std::vector<double> b = gen_dense(s, d);
      SU_vector B = make_vec(b, d);
      SU_vector RB = B.Rotate(i, j, th, de);
      double p0 = A * B, p1 = R * RB;
      ld sa = 0, sb = 0; for (double x : a) sa += (ld)x * x; for (double x : b) sb += (ld)x * x;
      CHECK(fabsl((ld)p0 - (ld)p1) <= 512 * d * d * EPS * sqrtl(sa * sb) * d + TINY, fmt("C06|Rotate-plane|scalar-product|%d_%d%d", d, i + 1, j + 1), "%.17g vs %.17g", p0, p1);
      break;
    }
    case 1: {  // Const -> transformation matrix, RotateToB0/B1
      Const p; double th[6][6], de[6][6]; bool nta = false;
      fill_const(s, p, th, de, &nta);
      std::vector<double> a = gen_dense(s, d);
      ci.label("const-B0B1"); ci.nontrivial = nta;
      ci.sample = fmt("RotateToB0/B1 d=%d th01=%.17g de01=%.17g th12=%.17g A=%s", d, th[0][1], de[0][1], th[1][2], vec_str(a).c_str());
      auto gU = p.GetTransformationMatrix(d);
      CHECK((int)gU->size1 == d && (int)gU->size2 == d, "C06|GetTransformationMatrix|size", "d=%d", d);
      Mat U = fromGsl(gU.get());
      int nrot = d * (d - 1) / 2;
      CHECK(unitarity_defect(U) <= 64 * d * nrot * EPS, fmt("C06|GetTransformationMatrix|not-unitary|d=%d", d), "defect %.3Lg %s", unitarity_defect(U), ci.sample.c_str());
      Mat W = model_U(d, th, de);
      CHECK(maxabs(U - W) <= 64 * nrot * d * EPS, fmt("C06|GetTransformationMatrix|not-ordered-product|d=%d", d), "diff %.3Lg %s", maxabs(U - W), ci.sample.c_str());
      ci.ratio("transformation-matrix", (double)(maxabs(U - W) / (64 * nrot * d * EPS)));
      VecHolder hA; SU_vector& A = hA.make(a, d, s.tail_choose(8)); ci.label(std::string("storage-") + hA.kind);
      Mat MA = toM(a, d);
      ld tol = 64 * d * d * EPS * amax_of(a) * nrot;
      SU_vector B1 = A; B1.RotateToB1(p);
      cmp(B1, dagger(U) * MA * U, tol, fmt("C06|RotateToB1|not-UdaggerAU|d=%d", d), ci.sample, ci, "rotate-B1");
      SU_vector B0 = A; B0.RotateToB0(p);
      cmp(B0, U * MA * dagger(U), tol, fmt("C06|RotateToB0|not-UAUdagger|d=%d", d), ci.sample, ci, "rotate-B0");
      SU_vector back = B1; back.RotateToB0(p);
      for (int i = 0; i < d * d; i++) CHECK(fabsl((ld)back[i] - (ld)a[i]) <= 2 * tol + TINY, fmt("C06|RotateToB0|not-inverse-of-B1|d=%d", d), "slot %d %.17g vs %.17g", i, back[i], a[i]);
      // agreement with the matrix entry points
      GslMat g(round_to_double(U));
      SU_vector viaRotate = A.Rotate(g.m), viaUT = A.UTransform(g.m), viaUD = A.UDaggerTransform(g.m);
      for (int i = 0; i < d * d; i++) {
        CHECK(fabsl((ld)viaRotate[i] - (ld)B1[i]) <= 2 * tol + TINY, fmt("C06|Rotate(U)|disagrees-with-RotateToB1|d=%d", d), "slot %d %.17g vs %.17g", i, viaRotate[i], B1[i]);
        CHECK(fabsl((ld)viaUT[i] - (ld)B1[i]) <= 2 * tol + TINY, fmt("C06|UTransform(U)|disagrees-with-RotateToB1|d=%d", d), "slot %d %.17g vs %.17g", i, viaUT[i], B1[i]);
        CHECK(fabsl((ld)viaUD[i] - (ld)B0[i]) <= 2 * tol + TINY, fmt("C06|UDaggerTransform(U)|disagrees-with-RotateToB0|d=%d", d), "slot %d %.17g vs %.17g", i, viaUD[i], B0[i]);
      }
      CHECK(fabsl((ld)B1[0] - (ld)a[0]) <= tol + TINY && fabsl((ld)B0[0] - (ld)a[0]) <= tol + TINY, fmt("C06|RotateToB|identity-component|d=%d", d), "%.17g -> %.17g / %.17g", a[0], B1[0], B0[0]);
      break;
    }
    case 2: {  // general unitary through the three matrix entry points
      Mat U = round_to_double(gen_unitary(s, d));
      std::vector<double> a = gen_dense(s, d), b = gen_dense(s, d);
      ci.label("unitary-matrix"); ci.nontrivial = maxabs(U - Mat::identity(d)) > 1e-3;
      ci.sample = fmt("Rotate(U)/UTransform(U)/UDaggerTransform(U) d=%d U=%s A=%s", d, mat_str(U).c_str(), vec_str(a).c_str());
      // the unitary is handed over either as an owning contiguous matrix or as a view into a larger matrix (row stride > d)
      bool view = s.flag();
      GslMat big(d + 1 + (int)s.choose(3), d + 1 + (int)s.choose(3));
      int r0 = (int)s.choose((unsigned)(big.m->size1 - d + 1)), c0 = (int)s.choose((unsigned)(big.m->size2 - d + 1));
      for (size_t i = 0; i < big.m->size1; i++) for (size_t j = 0; j < big.m->size2; j++) gsl_matrix_complex_set(big.m, i, j, gsl_complex_rect(7.0 + i, -3.0 - j));
      gsl_matrix_complex_view sub = gsl_matrix_complex_submatrix(big.m, r0, c0, d, d);
      GslMat own(U);
      if (view) { for (int i = 0; i < d; i++) for (int j = 0; j < d; j++) gsl_matrix_complex_set(&sub.matrix, i, j, gsl_matrix_complex_get(own.m, i, j)); ci.label("unitary-as-submatrix-view"); }
      struct { gsl_matrix_complex* m; } g{view ? &sub.matrix : own.m};
      SU_vector A = make_vec(a, d), B = make_vec(b, d);
      Mat MA = toM(a, d);
      ld tol = 128 * d * d * EPS * amax_of(a);
      Mat w1 = dagger(U) * MA * U, w0 = U * MA * dagger(U);
      SU_vector r1 = A.Rotate(g.m), r2 = A.UTransform(g.m), r3 = A.UDaggerTransform(g.m);
      cmp(r1, w1, tol, fmt("C06|Rotate(U)|not-UdaggerAU|d=%d", d), ci.sample, ci, "rotate-U");
      cmp(r2, w1, tol, fmt("C06|UTransform(U)|not-UdaggerAU|d=%d", d), ci.sample, ci, "utransform-U");
      cmp(r3, w0, tol, fmt("C06|UDaggerTransform(U)|not-UAUdagger|d=%d", d), ci.sample, ci, "udagger-U");
      CHECK(comps(A) == a, "C06|matrix-transform|operand-modified", "d=%d", d);
      Mat U2 = fromGsl(g.m);
      CHECK(maxabs(U2 - U) == 0, "C06|matrix-transform|matrix-argument-modified", "d=%d", d);
      if (view) for (size_t i = 0; i < big.m->size1; i++) for (size_t j = 0; j < big.m->size2; j++) {
        if ((int)i >= r0 && (int)i < r0 + d && (int)j >= c0 && (int)j < c0 + d) continue;
        gsl_complex z = gsl_matrix_complex_get(big.m, i, j);
        CHECK(GSL_REAL(z) == 7.0 + i && GSL_IMAG(z) == -3.0 - j, "C06|matrix-transform|wrote-outside-the-matrix-view", "element (%zu,%zu) of the enclosing matrix changed", i, j);
      }
      SU_vector rb = B.UTransform(g.m);
      double p0 = A * B, p1 = r2 * rb;
      CHECK(fabsl((ld)p0 - (ld)p1) <= 1024 * d * d * d * EPS * amax_of(a) * amax_of(b) * d + TINY, fmt("C06|UTransform(U)|scalar-product|d=%d", d), "%.17g vs %.17g", p0, p1);
      // wrong-size matrix must be rejected by Rotate(matrix)
      break;
    }
    case 3: {  // WeightedRotation overloads agree
      Const pv, pw; double tv[6][6], dv[6][6], tw[6][6], dw[6][6]; bool nta = false;
      fill_const(s, pv, tv, dv, &nta); fill_const(s, pw, tw, dw, &nta);
      std::vector<double> a = gen_dense(s, d), y = s.flag() ? gen_dense(s, d) : gen_components(s, d, nullptr, 6);
      ci.label("weighted-rotation"); ci.nontrivial = nta && count_nonzero(y) > 0;
      ci.sample = fmt("WeightedRotation d=%d Yd=%s A=%s", d, vec_str(y).c_str(), vec_str(a).c_str());
      SU_vector A1 = make_vec(a, d), A2 = make_vec(a, d), Y = make_vec(y, d);
      auto V = pv.GetTransformationMatrix(d), W = pw.GetTransformationMatrix(d);
      bool self_weight = s.choose(4) == 0;  // the weight operator may be the very vector being transformed
      if (self_weight) {
        SU_vector B1 = make_vec(a, d), B2 = make_vec(a, d), Yc = make_vec(a, d);
        B1.WeightedRotation(pv, B1, pw);        // aliased weight
        B2.WeightedRotation(pv, Yc, pw);        // equal but distinct weight
        ld ys2 = 0; for (double x : a) ys2 += (ld)x * x;
        ld t2 = 512 * d * d * EPS * amax_of(a) * (ys2 * d + TINY) * d * (d - 1);
        for (int i = 0; i < d * d; i++) CHECK(fabsl((ld)B1[i] - (ld)B2[i]) <= t2 + TINY, fmt("C06|WeightedRotation|wrong-when-weight-is-the-vector-itself|d=%d", d), "slot %d %.17g vs %.17g", i, B1[i], B2[i]);
        SU_vector B3 = make_vec(a, d); B3.WeightedRotation(V.get(), B3, W.get());
        for (int i = 0; i < d * d; i++) CHECK(fabsl((ld)B3[i] - (ld)B2[i]) <= t2 + TINY, fmt("C06|WeightedRotation-matrix|wrong-when-weight-is-the-vector-itself|d=%d", d), "slot %d %.17g vs %.17g", i, B3[i], B2[i]);
        ci.label("weighted-self");
      }
      A1.WeightedRotation(pv, Y, pw);
      A2.WeightedRotation(V.get(), Y, W.get());
      ld ys = 0; for (double x : y) ys += (ld)x * x;
      int nrot = d * (d - 1);
      ld tol = 512 * d * d * EPS * amax_of(a) * (ys * d + TINY) * nrot;
      for (int i = 0; i < d * d; i++) {
        CHECK(fabsl((ld)A1[i] - (ld)A2[i]) <= tol + TINY, fmt("C06|WeightedRotation|overloads-disagree|d=%d", d), "slot %d %.17g vs %.17g tol %.3Lg %s", i, A1[i], A2[i], tol, ci.sample.c_str());
        ci.ratio("weighted", (double)(fabsl((ld)A1[i] - (ld)A2[i]) / (tol + TINY)));
      }
      CHECK(comps(Y) == y, "C06|WeightedRotation|Yd-modified", "d=%d", d);
      break;
    }
    case 5: {  // history on one Const object: setters interleaved with every consumer of the stored parameters
      Const p; double th[6][6], de[6][6];
      for (int i = 0; i < 6; i++) for (int j = 0; j < 6; j++) th[i][j] = de[i][j] = 0;
      int nsteps = 2 + (int)s.choose(10);
      std::vector<double> a = gen_dense(s, d);
      VecHolder hA; SU_vector& A = hA.make(a, d, s.tail_choose(8)); ci.label(std::string("storage-") + hA.kind); Mat MA = toM(a, d);
      std::string hist; bool nta = false; int consumers = 0, sets_after_consumer = 0;
      int nrot = d * (d - 1) / 2;
      ld tol = 64 * d * d * EPS * amax_of(a) * nrot;
      for (int st = 0; st < nsteps; st++) {
        unsigned what = s.choose(5);
        int i = (int)s.choose(d - 1), j = i + 1 + (int)s.choose(d - 1 - i);
        if (what == 0) { th[i][j] = gen_angle(s); p.SetMixingAngle(i, j, th[i][j]); hist += fmt("angle(%d,%d)=%.3g ", i, j, th[i][j]); if (consumers) sets_after_consumer++; if (fabs(sin(th[i][j])) > 1e-3) nta = true; }
        else if (what == 1) { de[i][j] = gen_angle(s); p.SetPhase(i, j, de[i][j]); hist += fmt("phase(%d,%d)=%.3g ", i, j, de[i][j]); if (consumers) sets_after_consumer++; }
        else {
          Mat W = model_U(d, th, de);
          consumers++;
          if (what == 2) {
            int dd = s.flag() ? d : gen_dim(s);
            auto gU = p.GetTransformationMatrix(dd);
            Mat Wd = model_U(dd, th, de);
            ld err = maxabs(fromGsl(gU.get()) - Wd);
            hist += fmt("U(%d) ", dd);
            CHECK(err <= 64 * nrot * 6 * EPS, fmt("C06|GetTransformationMatrix|stale-or-wrong-after-history|d=%d", dd), "diff %.3Lg after history: %s", err, hist.c_str());
          } else if (what == 3) {
            SU_vector B1 = A; B1.RotateToB1(p); hist += "B1 ";
            cmp(B1, dagger(W) * MA * W, tol, fmt("C06|RotateToB1|wrong-after-history|d=%d", d), hist, ci, "history-B1");
          } else {
            auto gU = p.GetTransformationMatrix(d);
            SU_vector viaUT = A.UTransform(gU.get()); hist += "UT(U) ";
            cmp(viaUT, dagger(W) * MA * W, 2 * tol, fmt("C06|UTransform(U)|wrong-after-history|d=%d", d), hist, ci, "history-UT");
            for (int q = 0; q < 6; q++) for (int r = q + 1; r < 6; r++)
              CHECK(bit_equal(p.GetMixingAngle(q, r), th[q][r]) && bit_equal(p.GetPhase(q, r), de[q][r]), "C06|Const|readback-after-history", "(%d,%d) :: %s", q, r, hist.c_str());
          }
        }
      }
      ci.label("const-history"); ci.sample = fmt("Const history d=%d: %s", d, hist.c_str());
      ci.nontrivial = nta && consumers >= 2 && sets_after_consumer >= 1;
      break;
    }
    default: {  // parameter store
      Const p;
      unsigned which = s.choose(3);
      unsigned s1 = s.choose(8), s2 = s.choose(8);
      double val = s.num(40);
      ci.label(fmt("store-%u", which));
      ci.sample = fmt("store which=%u (%u,%u) val=%.17g", which, s1, s2, val);
      bool valid = which == 2 ? (s1 >= 1 && s1 < 6) : (s1 < s2 && s2 < 6);
      ci.nontrivial = true;
      ci.set_digest(fnv1a(ci.sample.data(), ci.sample.size()));
      bool threw_set = false, threw_get = false; double got = 0;
      try { if (which == 0) p.SetMixingAngle(s1, s2, val); else if (which == 1) p.SetPhase(s1, s2, val); else p.SetEnergyDifference(s1, val); } catch (const std::exception&) { threw_set = true; }
      try { got = which == 0 ? p.GetMixingAngle(s1, s2) : which == 1 ? p.GetPhase(s1, s2) : p.GetEnergyDifference(s1); } catch (const std::exception&) { threw_get = true; }
      CHECK(threw_set == !valid && threw_get == !valid, fmt("C06|Const|index-check|which=%u", which), "(%u,%u) valid=%d set threw=%d get threw=%d", s1, s2, (int)valid, (int)threw_set, (int)threw_get);
      if (valid) {
        CHECK(bit_equal(got, val), fmt("C06|Const|readback|which=%u", which), "stored %.17g read %.17g", val, got);
        // other slots untouched (still zero)
        for (unsigned j = 1; j < 6; j++) for (unsigned i = 0; i < j; i++) {
          if (which != 0 || i != s1 || j != s2) CHECK(p.GetMixingAngle(i, j) == 0, "C06|Const|crosstalk", "angle (%u,%u)", i, j);
          if (which != 1 || i != s1 || j != s2) CHECK(p.GetPhase(i, j) == 0, "C06|Const|crosstalk", "phase (%u,%u)", i, j);
        }
        for (unsigned k = 1; k < 6; k++) if (which != 2 || k != s1) CHECK(p.GetEnergyDifference(k) == 0, "C06|Const|crosstalk", "de %u", k);
      }
      break;
    }
  }
}

void enumerate(const Emit& emit, const std::string&) {
  // every kernel x angle class x phase class; the remaining bytes (A) are a fixed non-zero pattern
  for (int d = 2; d <= 6; d++) for (int i = 0; i < d - 1; i++) for (int j = i + 1; j < d; j++)
    for (int ta = 0; ta < 7; ta++) for (int td = 0; td < 7; td++) {
      std::vector<uint8_t> b = {0, (uint8_t)(d - 2), (uint8_t)i, (uint8_t)(j - i - 1)};
      auto angle = [&](int k) { b.push_back((uint8_t)k); if (k >= 3) { b.push_back(0x37); b.push_back(0x91); b.push_back(0x5a); b.push_back(0x63); } };
      angle(ta); angle(td);
      b.push_back(1);  // dense A
      for (int k = 0; k < 2 * 36 * 4 + 8; k++) b.push_back((uint8_t)(37 * k + 11 * d + 5 * i + 3 * j + 1));
      emit(b);
    }
}

// no defect of the pinned tree was found behind this property
void regressions() {}
