// C02 - commutator, anticommutator and scalar product equal their matrix definitions
#include "common/lib.h"

const char* PROPERTY = "C02";
const int LMAX = 700;
const char* RULE =
    "enum: all (d^2)^2 ordered generator pairs for d=2..6 (2274 pairs, exhaustive). pbt: pairs of component vectors (dense, sparse, "
    "A=B, both diagonal, magnitudes up to 2^+-300 against O(1)), self-owned and external storage at offsets 0..3 doubles, "
    "SUTrace<AlignedStorage> only when the alignment guarantee is true, plus bilinearity with random coefficients. Oracle: every "
    "component of iCommutator/ACommutator vs fromM(i(AB-BA)) / fromM(AB+BA) and A*B, SUTrace vs Tr(AB), all computed in the independent "
    "long-double matrix model, two-sided, tolerance 64*d*eps*|a|_2*|b|_2; identity component of the commutator exactly zero; antisymmetry, "
    "symmetry, bilinearity, Tr(A i[A,B])=0, and X=op(X,B) / X=op(A,X) equal to the unaliased result. Non-trivial: a generator pair whose commutator or anticommutator or trace is non-zero, or "
    "a pair with >=2 non-zero components each and a non-zero exact result; distinct by digest of consumed bytes.";
void harness_init() { quiet_gsl(); }

struct ExtBuf {  // exact-size heap buffer so that ASan guards both ends
  double* base; int off;
  ExtBuf(int n, int off_) : base((double*)malloc(sizeof(double) * (n + off_))), off(off_) {}
  ~ExtBuf() { free(base); }
  double* p() { return base + off; }
};
static bool aligned_ok(const SU_vector& v) {
  const double* p = &v[0];
  return ((intptr_t)(p + v.Dim() % 2)) % 32 == 0;
}
static ld norm2(const std::vector<double>& c) { ld s = 0; for (double x : c) s += (ld)x * (ld)x; return sqrtl(s); }

static void check_pair(const SU_vector& A, const SU_vector& B, const std::vector<double>& a, const std::vector<double>& b, int d, CaseInfo& ci, const std::string& tag, bool* nonzero_result) {
  Mat MA = toM(a, d), MB = toM(b, d);
  Mat AB = MA * MB, BA = MB * MA;
  std::vector<ld> wc = fromM(scale(AB - BA, cld(0, 1)));
  std::vector<ld> wa = fromM(AB + BA);
  ld wt = trace(AB).real();
  ld tol = 64 * d * EPS * norm2(a) * norm2(b);
  SU_vector C(squids::iCommutator(A, B));
  SU_vector AC(squids::ACommutator(A, B));
  CHECK((int)C.Dim() == d && (int)AC.Dim() == d, "C02|dim", "d=%d", d);
  bool nz = false;
  for (int i = 0; i < d * d; i++) {
    ld e1 = fabsl((ld)C[i] - wc[i]), e2 = fabsl((ld)AC[i] - wa[i]);
    CHECK(e1 <= tol + TINY, fmt("C02|iCommutator|component-mismatch|d=%d", d), "%s d=%d slot %d lib=%.17g model=%.17Lg err=%.3Lg tol=%.3Lg a=%s b=%s", tag.c_str(), d, i, C[i], wc[i], e1, tol, vec_str(a).c_str(), vec_str(b).c_str());
    CHECK(e2 <= tol + TINY, fmt("C02|ACommutator|component-mismatch|d=%d", d), "%s d=%d slot %d lib=%.17g model=%.17Lg err=%.3Lg tol=%.3Lg a=%s b=%s", tag.c_str(), d, i, AC[i], wa[i], e2, tol, vec_str(a).c_str(), vec_str(b).c_str());
    ci.ratio("iCommutator", (double)(e1 / (tol + TINY))); ci.ratio("ACommutator", (double)(e2 / (tol + TINY)));
    if (fabsl(wc[i]) > tol || fabsl(wa[i]) > tol) nz = true;
  }
  CHECK(C[0] == 0.0, fmt("C02|iCommutator|identity-component-nonzero|d=%d", d), "%s d=%d C[0]=%.17g", tag.c_str(), d, C[0]);
  double t1 = A * B;
  double t2 = squids::SUTrace<>(A, B);
  ld ttol = 64 * d * EPS * norm2(a) * norm2(b) * 2;
  CHECK(fabsl((ld)t1 - wt) <= ttol + TINY, fmt("C02|scalar-product|mismatch|d=%d", d), "%s d=%d A*B=%.17g Tr(AB)=%.17Lg tol=%.3Lg a=%s b=%s", tag.c_str(), d, t1, wt, ttol, vec_str(a).c_str(), vec_str(b).c_str());
  CHECK(bit_equal(t1, t2), "C02|SUTrace|differs-from-operator*", "%.17g vs %.17g", t1, t2);
  ci.ratio("trace", (double)(fabsl((ld)t1 - wt) / (ttol + TINY)));
  if (fabsl(wt) > ttol) nz = true;
  if (aligned_ok(A) && aligned_ok(B)) {
    double t3 = squids::SUTrace<squids::detail::AlignedStorage>(A, B);
    CHECK(fabsl((ld)t3 - wt) <= ttol + TINY, fmt("C02|SUTrace-aligned|mismatch|d=%d", d), "%s d=%d %.17g vs %.17Lg", tag.c_str(), d, t3, wt);
    ci.label("trace-aligned");
  }
  CHECK(comps(A) == a && comps(B) == b, "C02|operand-modified", "%s d=%d", tag.c_str(), d);
  if (nonzero_result) *nonzero_result = nz;
}

void run_case(ByteSource& s, CaseInfo& ci) {
  unsigned mode = s.choose(4);
  int d = gen_dim(s);
  if (mode == 0) {  // generator pair
    int ia = (int)(s.u8() % (unsigned)(d * d)), ib = (int)(s.u8() % (unsigned)(d * d));
    std::vector<double> a(d * d, 0.0), b(d * d, 0.0); a[ia] = 1; b[ib] = 1;
    SU_vector A = SU_vector::Generator(d, ia), B = SU_vector::Generator(d, ib);
    ci.sample = fmt("generators d=%d (%d,%d)", d, ia, ib); ci.label(fmt("genpair-d%d", d));
    ci.set_digest(fnv1a(ci.sample.data(), ci.sample.size()));
    bool nz = false;
    check_pair(A, B, a, b, d, ci, ci.sample, &nz);
    ci.nontrivial = nz;
    return;
  }
  // random pair
  unsigned shape = s.choose(6);
  static const char* shapes[] = {"independent", "A=B", "both-diagonal", "scaled", "sparse-vs-dense", "dense"};
  std::vector<double> a, b;
  std::string pa, pb;
  switch (shape) {
    case 0: a = gen_components(s, d, &pa, 40); b = gen_components(s, d, &pb, 40); break;
    case 1: a = gen_components(s, d, &pa, 40); b = a; break;
    case 2: a.assign(d * d, 0.0); b.assign(d * d, 0.0); a[0] = s.num(8); b[0] = s.num(8); for (int k = 1; k < d; k++) { a[d * k + k] = s.num(8); b[d * k + k] = s.num(8); } break;
    case 3: { a = gen_dense(s, d); b = gen_dense(s, d); double sc = s.pos_log(-300, 300); for (auto& x : a) x *= sc; break; }
    case 4: a = gen_dense(s, d); b.assign(d * d, 0.0); for (int i = 0; i < d * d; i++) if (s.choose(4) == 1) b[i] = s.num(20); break;
    default: a = gen_dense(s, d); b = gen_dense(s, d); break;
  }
  // storage kinds
  unsigned ka = s.choose(3), kb = s.choose(3);
  int offa = (int)s.choose(4), offb = (int)s.choose(4);
  ExtBuf ea(d * d, offa), eb(d * d, offb);
  SU_vector A = ka == 0 ? SU_vector(d) : (ka == 1 ? SU_vector::make_aligned(d) : SU_vector(d, ea.p()));
  SU_vector B = kb == 0 ? SU_vector(d) : (kb == 1 ? SU_vector::make_aligned(d) : SU_vector(d, eb.p()));
  for (int i = 0; i < d * d; i++) { A[i] = a[i]; B[i] = b[i]; }
  ci.label(std::string("pair-") + shapes[shape]); ci.label(fmt("storage-%u%u", ka, kb));
  ci.sample = fmt("pair %s d=%d storage=(%u@%d,%u@%d) a=%s b=%s", shapes[shape], d, ka, offa, kb, offb, vec_str(a).c_str(), vec_str(b).c_str());
  bool nz = false;
  check_pair(A, B, a, b, d, ci, shapes[shape], &nz);
  ci.nontrivial = nz && count_nonzero(a) >= 2 && count_nonzero(b) >= 2;
  ld na = norm2(a), nb = norm2(b);
  ld tol = 256 * d * EPS * na * nb;
  // antisymmetry / symmetry
  SU_vector C1(squids::iCommutator(A, B)), C2(squids::iCommutator(B, A)), A1(squids::ACommutator(A, B)), A2(squids::ACommutator(B, A));
  for (int i = 0; i < d * d; i++) {
    CHECK(fabsl((ld)C1[i] + (ld)C2[i]) <= tol + TINY, fmt("C02|iCommutator|not-antisymmetric|d=%d", d), "slot %d %.17g vs %.17g", i, C1[i], C2[i]);
    CHECK(fabsl((ld)A1[i] - (ld)A2[i]) <= tol + TINY, fmt("C02|ACommutator|not-symmetric|d=%d", d), "slot %d %.17g vs %.17g", i, A1[i], A2[i]);
  }
  // Tr(A i[A,B]) = 0
  double tz = A * C1;
  CHECK(fabsl((ld)tz) <= 256 * d * d * EPS * na * na * nb + TINY * (1 + na), fmt("C02|trace-A-commutator|nonzero|d=%d", d), "Tr(A i[A,B])=%.17g scale=%.3Lg", tz, na * na * nb);
  // assignment of a commutator to a target that is one of its operands (the target must not be read after it is written)
  {
    unsigned al = s.choose(5);
    if (al) {
      SU_vector X = al <= 2 ? A : B;   // copy of the operand that will also be the target
      SU_vector other = al <= 2 ? B : A;
      const SU_vector& want = (al % 2) ? C1 : A1;
      if (al == 1) X = squids::iCommutator(X, other); else if (al == 2) X = squids::ACommutator(X, other);
      else if (al == 3) X = squids::iCommutator(other, X); else X = squids::ACommutator(other, X);
      for (int i = 0; i < d * d; i++)
        CHECK(bit_equal(X[i], want[i]) || X[i] == want[i], fmt("C02|%s|wrong-when-target-is-operand-%d|d=%d", (al % 2) ? "iCommutator" : "ACommutator", al <= 2 ? 1 : 2, d), "slot %d %.17g vs %.17g", i, X[i], want[i]);
      ci.label("alias-target");
    }
  }
  {  // assignment into an existing vector with stale content (every component, including the identity one, must be overwritten)
    SU_vector X(d), Y(d);
    for (int i = 0; i < d * d; i++) { X[i] = 7.0 + i; Y[i] = -3.0 - i; }
    X = squids::iCommutator(A, B); Y = squids::ACommutator(A, B);
    for (int i = 0; i < d * d; i++) {
      CHECK(bit_equal(X[i], C1[i]) || X[i] == C1[i], fmt("C02|iCommutator|stale-target-content-survives|d=%d", d), "slot %d %.17g vs %.17g", i, X[i], C1[i]);
      CHECK(bit_equal(Y[i], A1[i]) || Y[i] == A1[i], fmt("C02|ACommutator|stale-target-content-survives|d=%d", d), "slot %d %.17g vs %.17g", i, Y[i], A1[i]);
    }
  }
  // bilinearity: iC(x A + y A', B) = x iC(A,B) + y iC(A',B)
  if (s.flag()) {
    std::vector<double> a2 = gen_dense(s, d);
    double x = s.num(6), y = s.num(6);
    SU_vector Ap = make_vec(a2, d);
    SU_vector L = x * A + y * Ap;
    SU_vector lhs(squids::iCommutator(L, B)), lhs2(squids::ACommutator(L, B));
    SU_vector r1(squids::iCommutator(Ap, B)), r2(squids::ACommutator(Ap, B));
    ld bt = 512 * d * EPS * (fabsl((ld)x) * na + fabsl((ld)y) * norm2(a2)) * nb;
    for (int i = 0; i < d * d; i++) {
      ld w1 = (ld)x * C1[i] + (ld)y * r1[i], w2 = (ld)x * A1[i] + (ld)y * r2[i];
      CHECK(fabsl((ld)lhs[i] - w1) <= bt + TINY * (1 + nb) * (1 + fabsl((ld)x) + fabsl((ld)y)), fmt("C02|iCommutator|not-bilinear|d=%d", d), "slot %d %.17g vs %.17Lg tol %.3Lg", i, lhs[i], w1, bt);
      CHECK(fabsl((ld)lhs2[i] - w2) <= bt + TINY * (1 + nb) * (1 + fabsl((ld)x) + fabsl((ld)y)), fmt("C02|ACommutator|not-bilinear|d=%d", d), "slot %d %.17g vs %.17Lg tol %.3Lg", i, lhs2[i], w2, bt);
    }
    ci.label("bilinearity");
  }
}

void enumerate(const Emit& emit, const std::string&) {
  for (int d = 2; d <= 6; d++)
    for (int ia = 0; ia < d * d; ia++)
      for (int ib = 0; ib < d * d; ib++)
        emit({0, (uint8_t)(d - 2), (uint8_t)ia, (uint8_t)ib});
}

// no defect of the pinned tree was found behind this property
void regressions() {}
