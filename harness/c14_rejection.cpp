// C14 - mismatched or unsupported dimensions are rejected before any read or write
#include "common/lib.h"

const char* PROPERTY = "C14";
const int LMAX = 64;
const char* RULE =
    "enum: all 20 ordered pairs d1!=d2 in {2..6} x 54 binary entry points (+ and - in every value-category overload, scalar product, SUTrace with and without guarantee flags that do not include EqualSizes, "
    "commutator, anticommutator, the four ElementwiseOperation and four ElementwiseProduct overloads, += -= of a vector and of a proxy, "
    "Evolve(op,t) in both roles, Rotate(matrix); the members of unevaluated expressions: Evolve by a vector and by an expression, + - and scalar product with vectors and "
    "expressions; Rotate / UTransform / UDaggerTransform by square matrices of the other dimension and by d1 x d2 and d2 x d1 ones, UTransform(vector,scale), "
    "WeightedRotation with a weight or a matrix of the other dimension) x 3x3 operand storage kinds (self-owned, aligned factory, external exact-size heap buffer so "
    "ASan sees a one-element over-read); every constructor/factory with the whole unsupported window (dimension 1,7,8; list lengths 1, every "
    "non-square <=64, 49, 64; r x c matrices up to 8x8 with r!=c and square 1,7,8; factory indices d..d*d+2) [exhaustive over these axes]; "
    "pbt re-samples the same space with random operand values. Oracle: a std::exception is raised; both operands bit-unchanged with the same "
    "address and dimension; no ASan/UBSan report; a rejected constructor leaves the ledger balanced is NOT judged here (C15). Non-trivial: every "
    "case (each is a distinct rejected call); distinct by (entry point, d1, d2, storage kinds / constructor argument).";
void harness_init() { quiet_gsl(); }

struct EOp { double operator()(double a, double b) const { return a * b + 1.0; } };
static const char* EP[] = {"a+b", "a+move(b)", "move(a)+b", "move(a)+move(b)", "a-b", "move(a)-b", "a*b", "SUTrace", "iCommutator", "ACommutator",
                           "EwOp(a,b)", "EwOp(move(a),b)", "EwOp(a,move(b))", "EwOp(move(a),move(b))", "EwProd(a,b)", "EwProd(move(a),b)", "EwProd(a,move(b))", "EwProd(move(a),move(b))",
                           "a+=b", "a-=b", "a+=proxy(b)", "a-=proxy(b)", "a.Evolve(b,t)", "b.Evolve(a,t)", "a.Rotate(matrix_d2)", "a+=b*2 (mult proxy)", "a-=(-b) (neg proxy)", "SUTrace<NoAlias>", "SUTrace<AlignedStorage>",
                           // entry points on unevaluated expressions, and the matrix-taking ones with every wrong shape
                           "(a+a2).Evolve(b,t)", "(a*2).Evolve(b,t)", "iCommutator(a,a2).Evolve(b,t)", "(a+a2).Evolve(b*2,t)", "a.Evolve(b*2,t)", "(a+a2)+b", "(a+a2)-b",
                           "(a+a2)+(b+b2)", "(a+a2)-(b+b2)", "(a+a2)*(b+b2)", "a*(b+b2)", "a+(b+b2)", "a.Rotate(d1 x d2)", "a.Rotate(d2 x d1)",
                           "a.UTransform(matrix_d2)", "a.UDaggerTransform(matrix_d2)", "a.UTransform(d1 x d2)", "a.UDaggerTransform(d2 x d1)", "a.UTransform(b,i)",
                           "a.WeightedRotation(V,b,W)", "a.WeightedRotation(V_d2,a2,W)", "a.WeightedRotation(V,a2,W_d2)",
                           "a.Rotate(r x c, rc=d1^2)", "a.UTransform(r x c, rc=d1^2)", "a.UDaggerTransform(r x c, rc=d1^2)"};
static const int NEP = 54;

struct Operand {
  double* ext; SU_vector v; std::vector<double> c; const double* addr; int d; int kind;
  Operand(int d_, int kind_, ByteSource& s) : ext(nullptr), d(d_), kind(kind_) {
    c.resize(d * d);
    for (int k = 0; k < d * d; k++) c[k] = 1.0 + k + 0.25 * s.unif();
    // self-owned operands may have had another dimension before (resized by copy or move assignment): every field the
    // guards rely on must have followed
    unsigned past = kind == 2 ? 0 : s.choose(4);
    int dprev = 2 + (d - 2 + 1 + (int)s.choose(4)) % 5;
    if (past == 1) { v = SU_vector(dprev); SU_vector t(d); v = std::move(t); }
    else if (past == 2) { v = SU_vector(dprev); SU_vector t(d); v = t; }
    else if (past == 3) { v = SU_vector(dprev); v = SU_vector::make_aligned(d); }
    else if (kind == 0) v = SU_vector(d);
    else if (kind == 1) v = SU_vector::make_aligned(d);
    else { ext = (double*)malloc(sizeof(double) * d * d); v = SU_vector(d, ext); }
    for (int k = 0; k < d * d; k++) v[k] = c[k];
    addr = &v[0];
  }
  ~Operand() { free(ext); }  // an externally backed vector never touches its buffer on destruction
  void unchanged(const std::string& sig, const std::string& ctx) const {
    CHECK((int)v.Dim() == d && (int)v.Size() == d * d, sig + "|operand-dimension-changed", "%s", ctx.c_str());
    CHECK(&v[0] == addr, sig + "|operand-storage-changed", "%s", ctx.c_str());
    for (int k = 0; k < d * d; k++) CHECK(bit_equal(v[k], c[k]), sig + "|operand-modified", "slot %d %.17g -> %.17g :: %s", k, c[k], v[k], ctx.c_str());
  }
};

static bool call_binary(int ep, SU_vector& a, SU_vector& b, int d2) {
  // returns true if an exception derived from std::exception was raised
  int d1 = (int)a.Dim();
  SU_vector a2 = a, b2 = b;  // second operands of the same dimension for the expression forms
  try {
    switch (ep) {
      case 0: { SU_vector r(a + b); break; }
      case 1: { SU_vector r(a + std::move(b)); break; }
      case 2: { SU_vector r(std::move(a) + b); break; }
      case 3: { SU_vector r(std::move(a) + std::move(b)); break; }
      case 4: { SU_vector r(a - b); break; }
      case 5: { SU_vector r(std::move(a) - b); break; }
      case 6: { volatile double r = a * b; (void)r; break; }
      case 7: { volatile double r = squids::SUTrace<>(a, b); (void)r; break; }
      case 8: { SU_vector r(squids::iCommutator(a, b)); break; }
      case 9: { SU_vector r(squids::ACommutator(a, b)); break; }
      case 10: { SU_vector r(squids::ElementwiseOperation(EOp(), a, b)); break; }
      case 11: { SU_vector r(squids::ElementwiseOperation(EOp(), std::move(a), b)); break; }
      case 12: { SU_vector r(squids::ElementwiseOperation(EOp(), a, std::move(b))); break; }
      case 13: { SU_vector r(squids::ElementwiseOperation(EOp(), std::move(a), std::move(b))); break; }
      case 14: { SU_vector r(squids::ElementwiseProduct(a, b)); break; }
      case 15: { SU_vector r(squids::ElementwiseProduct(std::move(a), b)); break; }
      case 16: { SU_vector r(squids::ElementwiseProduct(a, std::move(b))); break; }
      case 17: { SU_vector r(squids::ElementwiseProduct(std::move(a), std::move(b))); break; }
      case 18: a += b; break;
      case 19: a -= b; break;
      case 20: { SU_vector b2 = b; a += squids::iCommutator(b, b2); break; }
      case 21: { SU_vector b2 = b; a -= squids::ACommutator(b, b2); break; }
      case 22: { SU_vector r(a.Evolve(b, 0.75)); break; }
      case 23: { SU_vector r(b.Evolve(a, 0.75)); break; }
      case 24: { GslMat g(Mat::identity(d2)); SU_vector r = a.Rotate(g.m); break; }
      case 25: a += b * 2.0; break;
      case 26: a -= (-b); break;
      case 27: { volatile double r = squids::SUTrace<squids::detail::NoAlias>(a, b); (void)r; break; }
      case 29: { SU_vector r((a + a2).Evolve(b, 0.75)); break; }
      case 30: { SU_vector r((a * 2.0).Evolve(b, 0.75)); break; }
      case 31: { SU_vector r(squids::iCommutator(a, a2).Evolve(b, 0.75)); break; }
      case 32: { SU_vector r((a + a2).Evolve(b * 2.0, 0.75)); break; }
      case 33: { SU_vector r(a.Evolve(b * 2.0, 0.75)); break; }
      case 34: { SU_vector r((a + a2) + b); break; }
      case 35: { SU_vector r((a + a2) - b); break; }
      case 36: { SU_vector r((a + a2) + (b + b2)); break; }
      case 37: { SU_vector r((a + a2) - (b + b2)); break; }
      case 38: { volatile double r = (a + a2) * (b + b2); (void)r; break; }
      case 39: { volatile double r = a * (b + b2); (void)r; break; }
      case 40: { SU_vector r(a + (b + b2)); break; }
      case 41: { GslMat g(d1, d2); SU_vector r = a.Rotate(g.m); break; }
      case 42: { GslMat g(d2, d1); SU_vector r = a.Rotate(g.m); break; }
      case 43: { GslMat g(Mat::identity(d2)); SU_vector r = a.UTransform(g.m); break; }
      case 44: { GslMat g(Mat::identity(d2)); SU_vector r = a.UDaggerTransform(g.m); break; }
      case 45: { GslMat g(d1, d2); SU_vector r = a.UTransform(g.m); break; }
      case 46: { GslMat g(d2, d1); SU_vector r = a.UDaggerTransform(g.m); break; }
      case 51: case 52: case 53: {  // r x c with as many entries as a d1 x d1 matrix, but not square (d2 selects the factor pair)
        std::vector<std::pair<int, int>> shapes;
        for (int r = 1; r <= d1 * d1; r++) if ((d1 * d1) % r == 0 && r != d1) shapes.push_back({r, d1 * d1 / r});
        auto sh = shapes[(size_t)d2 % shapes.size()];
        GslMat g(sh.first, sh.second);
        if (ep == 51) { SU_vector r = a.Rotate(g.m); } else if (ep == 52) { SU_vector r = a.UTransform(g.m); } else { SU_vector r = a.UDaggerTransform(g.m); }
        break;
      }
      case 47: { SU_vector r = a.UTransform(b, gsl_complex_rect(0.0, 1.0)); break; }
      case 48: { GslMat V(Mat::identity(d1)), W(Mat::identity(d1)); a.WeightedRotation(V.m, b, W.m); break; }
      case 49: { GslMat V(Mat::identity(d2)), W(Mat::identity(d1)); a.WeightedRotation(V.m, a2, W.m); break; }
      case 50: { GslMat V(Mat::identity(d1)), W(Mat::identity(d2)); a.WeightedRotation(V.m, a2, W.m); break; }
      default: { volatile double r = squids::SUTrace<squids::detail::AlignedStorage>(a, b); (void)r; break; }
    }
  } catch (const std::exception&) { return true; }
  return false;
}

void run_case(ByteSource& s, CaseInfo& ci) {
  unsigned mode = s.choose(2);
  ci.nontrivial = true;
  if (mode == 0) {
    int ep = (int)s.choose(NEP);
    int d1 = gen_dim(s), d2 = 2 + (d1 - 2 + 1 + (int)s.choose(4)) % 5;
    int ka = (int)s.choose(3), kb = (int)s.choose(3);
    if (ep == 28) ka = kb = 1;  // the alignment guarantee must be true: both operands come from the aligned factory
    ci.sample = fmt("%s d1=%d d2=%d storage=(%d,%d)", EP[ep], d1, d2, ka, kb);
    ci.label(std::string("ep-") + EP[ep]);
    ci.set_digest(fnv1a(ci.sample.data(), ci.sample.size()));
    Operand A(d1, ka, s), B(d2, kb, s);
    std::string sig = std::string("C14|") + EP[ep];
    bool threw = call_binary(ep, A.v, B.v, d2);
    A.unchanged(sig, ci.sample); B.unchanged(sig, ci.sample);
    CHECK(threw, sig + "|no-exception", "%s", ci.sample.c_str());
    return;
  }
  // constructors and factories with unsupported arguments
  unsigned ck = s.choose(11);
  static const char* CK[] = {"SU_vector(d)", "SU_vector(d,buf)", "SU_vector(list)", "SU_vector(matrix)", "SU_vector(unique_ptr matrix)", "make_aligned(d)",
                             "Projector", "Identity", "PosProjector", "NegProjector", "Generator"};
  static const int BADD[] = {1, 7, 8};
  std::string sig = std::string("C14|") + CK[ck];
  bool threw = false;
  std::string arg;
  try {
    switch (ck) {
      case 0: { int d = BADD[s.choose(3)]; arg = fmt("d=%d", d); SU_vector v((unsigned)d); break; }
      case 1: { int d = BADD[s.choose(3)]; arg = fmt("d=%d", d); std::vector<double> buf(64, 1.0); SU_vector v((unsigned)d, buf.data()); break; }
      case 2: {
        static std::vector<int> bad;
        if (bad.empty()) { for (int n = 1; n <= 64; n++) { int r = (int)std::lround(std::sqrt((double)n)); bool sq = r * r == n; if (!sq || n == 1 || n == 49 || n == 64) bad.push_back(n); } }
        int n = bad[s.choose((unsigned)bad.size())]; arg = fmt("len=%d", n);
        std::vector<double> data(n, 0.5); SU_vector v(data); break;
      }
      case 3: case 4: {
        int r, c;
        if (s.flag()) { r = BADD[s.choose(3)]; c = r; } else { r = 1 + (int)s.choose(8); c = 1 + (r - 1 + 1 + (int)s.choose(7)) % 8; }
        arg = fmt("%dx%d", r, c);
        if (ck == 3) { GslMat g(r, c); SU_vector v(g.m); }
        else { std::unique_ptr<gsl_matrix_complex, void (*)(gsl_matrix_complex*)> up(gsl_matrix_complex_calloc(r, c), gsl_matrix_complex_free); SU_vector v(std::move(up)); }
        break;
      }
      case 5: { int d = BADD[s.choose(3)]; arg = fmt("d=%d", d); SU_vector v = SU_vector::make_aligned(d, s.flag()); break; }
      default: {
        bool badd = s.choose(3) == 0;
        int d = badd ? BADD[s.choose(3)] : gen_dim(s);
        int lim = ck == 10 ? d * d : d;
        int idx = badd ? (int)s.choose(3) : lim + (int)s.choose((unsigned)(d * d + 2 - lim + 1));
        if (ck == 7 && !badd) { d = BADD[s.choose(3)]; badd = true; }
        arg = fmt("d=%d idx=%d", d, idx);
        switch (ck) {
          case 6: { SU_vector v = SU_vector::Projector(d, idx); break; }
          case 7: { SU_vector v = SU_vector::Identity(d); break; }
          case 8: { SU_vector v = SU_vector::PosProjector(d, idx); break; }
          case 9: { SU_vector v = SU_vector::NegProjector(d, idx); break; }
          default: { SU_vector v = SU_vector::Generator(d, idx); break; }
        }
        break;
      }
    }
  } catch (const std::exception&) { threw = true; }
  ci.sample = fmt("%s %s", CK[ck], arg.c_str());
  ci.label(std::string("ctor-") + CK[ck]);
  ci.set_digest(fnv1a(ci.sample.data(), ci.sample.size()));
  CHECK(threw, sig + "|no-exception|" + arg, "%s", ci.sample.c_str());
}

void enumerate(const Emit& emit, const std::string&) {
  for (int ep = 0; ep < NEP; ep++) for (int d1 = 2; d1 <= 6; d1++) for (int off = 0; off < 4; off++) for (int ka = 0; ka < 3; ka++) for (int kb = 0; kb < 3; kb++)
    emit({0, (uint8_t)ep, (uint8_t)(d1 - 2), (uint8_t)off, (uint8_t)ka, (uint8_t)kb});
  // constructors / factories
  for (int k = 0; k < 3; k++) { emit({1, 0, (uint8_t)k}); emit({1, 1, (uint8_t)k}); emit({1, 5, (uint8_t)k, 0}); emit({1, 5, (uint8_t)k, 1}); }
  for (int i = 0; i < 60; i++) emit({1, 2, (uint8_t)i});
  for (int ck = 3; ck <= 4; ck++) {
    for (int k = 0; k < 3; k++) emit({1, (uint8_t)ck, 1, (uint8_t)k});
    for (int r = 0; r < 8; r++) for (int c = 0; c < 7; c++) emit({1, (uint8_t)ck, 0, (uint8_t)r, (uint8_t)c});
  }
  for (int ck = 6; ck <= 10; ck++) {
    for (int k = 0; k < 3; k++) for (int i = 0; i < 3; i++) emit({1, (uint8_t)ck, 0, (uint8_t)k, (uint8_t)i});   // unsupported dimension
    if (ck == 7) continue;
    for (int d = 2; d <= 6; d++) for (int i = 0; i <= d * d + 2; i++) emit({1, (uint8_t)ck, 1, (uint8_t)(d - 2), (uint8_t)i});  // supported dimension, bad index
  }
}

// fixed findings 47ce1c9 (SUTrace), da55c78 (Evolve), 0e92215 (SU_vector(1,buf)), 090e08a (make_aligned), 5e455de (UTransform family)
void regressions() {
  for (int d1 = 2; d1 <= 6; d1++) for (int d2 = 2; d2 <= 6; d2++) {
    if (d1 == d2) continue;
    SU_vector a(d1), b(d2);
    bool t1 = false, t2 = false;
    try { volatile double r = squids::SUTrace<>(a, b); (void)r; } catch (const std::exception&) { t1 = true; }
    try { SU_vector r(a.Evolve(b, 0.5)); } catch (const std::exception&) { t2 = true; }
    CHECK(t1, "C14|SUTrace|no-exception", "regression: d1=%d d2=%d", d1, d2);
    CHECK(t2, "C14|a.Evolve(b,t)|no-exception", "regression: d1=%d d2=%d", d1, d2);
  }
  // 5e455de: UTransform / UDaggerTransform by a matrix of another size, UTransform by a vector of another dimension
  for (int d1 = 2; d1 <= 6; d1++) for (int d2 = 2; d2 <= 6; d2++) {
    if (d1 == d2) continue;
    SU_vector a(d1), b(d2); a[1] = 0.5; b[1] = 0.25;
    GslMat g(Mat::identity(d2)), r1(d1, d2), r2(d2, d1);
    bool t1 = false, t2 = false, t3 = false, t4 = false, t5 = false;
    try { SU_vector r = a.UTransform(g.m); } catch (const std::exception&) { t1 = true; }
    try { SU_vector r = a.UDaggerTransform(g.m); } catch (const std::exception&) { t2 = true; }
    try { SU_vector r = a.UTransform(r1.m); } catch (const std::exception&) { t3 = true; }
    try { SU_vector r = a.UDaggerTransform(r2.m); } catch (const std::exception&) { t4 = true; }
    try { SU_vector r = a.UTransform(b, gsl_complex_rect(0.0, 1.0)); } catch (const std::exception&) { t5 = true; }
    CHECK(t1 && t3, "C14|a.UTransform(matrix_d2)|no-exception", "regression: d1=%d d2=%d", d1, d2);
    CHECK(t2 && t4, "C14|a.UDaggerTransform(matrix_d2)|no-exception", "regression: d1=%d d2=%d", d1, d2);
    CHECK(t5, "C14|a.UTransform(b,i)|no-exception", "regression: d1=%d d2=%d", d1, d2);
  }
  double buf[64];
  for (unsigned d : {1u, 7u, 8u}) {
    bool t = false; try { SU_vector v = SU_vector::make_aligned(d); } catch (const std::exception&) { t = true; }
    CHECK(t, fmt("C14|make_aligned(d)|no-exception|d=%u", d), "regression");
    t = false; try { SU_vector v(d, buf); } catch (const std::exception&) { t = true; }
    CHECK(t, fmt("C14|SU_vector(d,buf)|no-exception|d=%u", d), "regression");
  }
}
