// C09 - fused expression evaluation equals naive evaluation for every expression shape
#include "common/lib.h"
#include "common/ledger.h"

const char* PROPERTY = "C09";
const int LMAX = 700;
const char* RULE =
    "enum: the shape product {=,+=,-=,construct} x 9 operations (sum, difference, negation, scalar multiple, commutator, anticommutator, "
    "Evolve(H,t), Evolve(buffer), user element-wise functor) x target {empty, self-owned same size, self-owned other size, external same size, "
    "external other size} x operand value categories x alias pattern {none, v is a, v is b, v is both, a is b, v and a on one external buffer, "
    "v and b on one external buffer} x guarantee-flag set {none, NoAlias, EqualSizes, AlignedStorage, NoAlias|EqualSizes, all} restricted to "
    "flags that are TRUE for the case (truth computed from addresses and sizes) x d=2..6, each with a sentinel-filled stale target "
    "[exhaustive over these axes at fixed operand storage]; pbt: the same space with random values, operand storage kinds (sized, aligned "
    "factory, list-constructed, external at offsets 0..3) and scalars. Oracle (differential): the same operation evaluated by the library into a "
    "fresh temporary from fresh copies of the operands, combined with the old target by the harness (=,+,- per component); fused and naive "
    "paths execute the same IEEE operations so the comparison is bit-exact; lvalue operands that do not alias the target are bit-unchanged; "
    "exactly the two documented failures (size-changing assignment to external storage, size-mismatched +=/-=) raise std::runtime_error and "
    "leave v unmodified; nothing else raises. Non-trivial: a case with an alias, an rvalue operand, a size change, a guarantee flag or a "
    "compound form; distinct by shape digest (all discrete coordinates).";
void harness_init() { quiet_gsl(); }

namespace sd = squids::detail;
struct Fn { double k; double operator()(double a, double b) const { return a * b + k * a - b; } };
enum Form { ASSIGN, INCR, DECR, CONSTRUCT };
static const char* FORMS[] = {"=", "+=", "-=", "construct"};
static const char* OPS[] = {"a+b", "a-b", "-a", "s*a", "iCommutator", "ACommutator", "Evolve(H,t)", "Evolve(buffer)", "ElementwiseOperation"};
static const char* TARGETS[] = {"empty", "owned-same", "owned-other", "external-same", "external-other"};
static const char* PATTERNS[] = {"none", "v-is-a", "v-is-b", "v-is-both", "a-is-b", "v,a-one-buffer", "v,b-one-buffer"};
static const unsigned FLAGSETS[] = {0, sd::NoAlias, sd::EqualSizes, sd::AlignedStorage, sd::NoAlias | sd::EqualSizes, sd::NoAlias | sd::EqualSizes | sd::AlignedStorage};

struct Ctx {
  int form; unsigned flagsel;
  SU_vector* v;                 // target for the three assignment forms
  std::unique_ptr<SU_vector> made;  // result of the construct form
};
template <class P>
static void statement(Ctx& c, P&& p) {
  switch (c.form) {
    case ASSIGN: *c.v = p; break;
    case INCR: *c.v += p; break;
    case DECR: *c.v -= p; break;
    default: c.made.reset(new SU_vector(std::forward<P>(p))); break;
  }
}
template <class P>
static void with_flags(Ctx& c, P&& p) {
  switch (c.flagsel) {
    case 0: statement(c, std::forward<P>(p)); break;
    case 1: statement(c, sd::guarantee<sd::NoAlias>(p)); break;
    case 2: statement(c, sd::guarantee<sd::EqualSizes>(p)); break;
    case 3: statement(c, sd::guarantee<sd::AlignedStorage>(p)); break;
    case 4: statement(c, sd::guarantee<sd::NoAlias | sd::EqualSizes>(p)); break;
    default: statement(c, sd::guarantee<sd::NoAlias | sd::EqualSizes | sd::AlignedStorage>(p)); break;
  }
}
// build the expression with the requested operand value categories and hand the proxy to the statement
static void run_expr(Ctx& c, int op, bool ra, bool rb, SU_vector& a, SU_vector& b, double s, double t, const double* buf, Fn fn, bool left_scalar) {
  switch (op) {
    case 0:
      if (ra && rb) with_flags(c, std::move(a) + std::move(b)); else if (ra) with_flags(c, std::move(a) + b); else if (rb) with_flags(c, a + std::move(b)); else with_flags(c, a + b);
      break;
    case 1: if (ra) with_flags(c, std::move(a) - b); else with_flags(c, a - b); break;
    case 2: if (ra) with_flags(c, -std::move(a)); else with_flags(c, -a); break;
    case 3:
      if (left_scalar) { if (ra) with_flags(c, s * std::move(a)); else with_flags(c, s * a); }
      else { if (ra) with_flags(c, std::move(a) * s); else with_flags(c, a * s); }
      break;
    case 4: with_flags(c, squids::iCommutator(a, b)); break;
    case 5: with_flags(c, squids::ACommutator(a, b)); break;
    case 6: with_flags(c, a.Evolve(b, t)); break;
    case 7: with_flags(c, a.Evolve(buf)); break;
    default:
      if (ra && rb) with_flags(c, squids::ElementwiseOperation(fn, std::move(a), std::move(b)));
      else if (ra) with_flags(c, squids::ElementwiseOperation(fn, std::move(a), b));
      else if (rb) with_flags(c, squids::ElementwiseOperation(fn, a, std::move(b)));
      else with_flags(c, squids::ElementwiseOperation(fn, a, b));
      break;
  }
}
static bool aligned_ok(const SU_vector& v) { return v.Size() == 0 || ((intptr_t)(&v[0] + v.Dim() % 2)) % 32 == 0; }

struct Buf { double* base; int off; Buf() : base(nullptr), off(0) {} ~Buf() { free(base); } double* make(int n, int o) { free(base); off = o; base = (double*)malloc(sizeof(double) * (n + o)); return base + o; } double* p() { return base + off; } };

static SU_vector make_operand(int kind, int d, Buf& b, int off) {
  switch (kind) {
    case 0: return SU_vector(d);
    case 1: return SU_vector::make_aligned(d);
    case 2: return SU_vector(std::vector<double>(d * d, 0.0));
    default: return SU_vector(d, b.make(d * d, off));
  }
}

void run_case(ByteSource& s, CaseInfo& ci) {
  int d = gen_dim(s);
  int form = (int)s.choose(4), op = (int)s.choose(9), tk = (int)s.choose(5), pat = (int)s.choose(7);
  bool ra = s.flag(), rb = s.flag();
  unsigned flagsel = s.choose(6);
  int ka = (int)s.choose(4), kb = (int)s.choose(4), offa = (int)s.choose(4), offb = (int)s.choose(4), offv = (int)s.choose(4);
  bool left_scalar = s.flag();
  // value categories only exist for the element-wise operations
  if (op == 1) rb = false;
  if (op == 2 || op == 3) rb = false;
  if (op >= 4 && op <= 7) ra = rb = false;
  bool unary = op == 2 || op == 3 || op == 7;
  if (form == CONSTRUCT && pat != 0 && pat != 4) pat = 0;
  if (unary && (pat == 2 || pat == 6)) pat = 0;
  if (unary && pat == 3) pat = 1;
  if (unary && pat == 4) pat = 0;
  if (pat == 5) ka = 3;
  if (pat == 6) kb = 3;
  int d2 = 2 + (d - 2 + 1 + (int)s.choose(4)) % 5;  // the "other size"
  double sc = s.num(6), t = 3 * s.dense();
  Fn fn{s.dense()};
  // ---- operands -------------------------------------------------------------------------
  Buf ba, bb, bv;
  SU_vector A = make_operand(ka, d, ba, offa);
  SU_vector Bstore = make_operand(kb, d, bb, offb);
  SU_vector& B = (pat == 4 || pat == 3) ? A : Bstore;
  bool b_diag = op == 6;
  std::vector<double> av(d * d), bvv(d * d);
  for (auto& x : av) x = s.dense();
  for (auto& x : bvv) x = s.dense();
  if (b_diag) { for (int q = 0; q < d * d; q++) if (slot_kind(d, q) == 1 || slot_kind(d, q) == 2) bvv[q] = 0; }
  if (&B == &A) { if (b_diag) av = bvv; else bvv = av; }
  for (int q = 0; q < d * d; q++) { A[q] = av[q]; if (&B != &A) B[q] = bvv[q]; }
  // evolution buffer (exact size on the heap), prepared from a diagonal operator
  double* ebuf = (double*)malloc(sizeof(double) * d * (d - 1));
  struct FreeE { double* p; ~FreeE() { free(p); } } fe{ebuf};
  { std::vector<double> h(d * d, 0.0); for (int m = 1; m < d; m++) h[d * m + m] = 0.3 * m + 0.1; SU_vector H = make_vec(h, d); H.PrepareEvolve(ebuf, t); }
  // ---- target -----------------------------------------------------------------------------
  SU_vector Vstore;
  SU_vector* V = &Vstore;
  int vd = 0;  // dimension of the target before the statement
  if (pat == 1 || pat == 3) { V = &A; vd = d; }
  else if (pat == 2) { V = &B; vd = d; }
  else if (pat == 5) { Vstore = SU_vector(d, ba.p()); vd = d; }
  else if (pat == 6) { Vstore = SU_vector(d, bb.p()); vd = d; }
  else if (form != CONSTRUCT) {
    switch (tk) {
      case 0: vd = 0; break;
      case 1: Vstore = s.flag() ? SU_vector(d) : SU_vector::make_aligned(d); vd = d; break;
      case 2: Vstore = SU_vector(d2); vd = d2; break;
      case 3: Vstore = SU_vector(d, bv.make(d * d, offv)); vd = d; break;
      default: Vstore = SU_vector(d2, bv.make(d2 * d2, offv)); vd = d2; break;
    }
    if (V == &Vstore) for (int q = 0; q < vd * vd; q++) Vstore[q] = -7777.0 - q;  // stale sentinel content
  }
  bool v_is_operand = V == &A || V == &B;
  bool v_ext = (pat == 5 || pat == 6) || (!v_is_operand && (tk == 3 || tk == 4) && form != CONSTRUCT) || (v_is_operand && ((V == &A && ka == 3) || (V == &B && &B != &A && kb == 3) || (V == &B && &B == &A && ka == 3)));
  std::vector<double> oldv = form == CONSTRUCT ? std::vector<double>() : comps(*V);
  const double* vaddr = (form != CONSTRUCT && vd > 0) ? &(*V)[0] : nullptr;
  // truth of the guarantees
  bool t_noalias = form == CONSTRUCT || vd == 0 || (vaddr != &A[0] && (unary || vaddr != &B[0]));
  bool t_equal = form != CONSTRUCT && vd == d;
  bool t_aligned = aligned_ok(A) && (unary || aligned_ok(B)) && (form == CONSTRUCT || vd != d || aligned_ok(*V));
  unsigned F = FLAGSETS[flagsel];
  if (((F & sd::NoAlias) && !t_noalias) || ((F & sd::EqualSizes) && !t_equal) || ((F & sd::AlignedStorage) && !t_aligned)) { flagsel = 0; F = 0; }
  // ---- naive evaluation from fresh copies ----------------------------------------------------
  SU_vector ca = make_vec(av, d), cb = make_vec(bvv, d);
  Ctx naive; naive.form = CONSTRUCT; naive.flagsel = 0; naive.v = nullptr;
  run_expr(naive, op, false, false, ca, cb, sc, t, ebuf, fn, left_scalar);
  std::vector<double> tmp = comps(*naive.made);
  CHECK((int)naive.made->Dim() == d, "C09|naive|dim", "d=%d", d);
  std::vector<double> want(d * d);
  bool expect_throw = false;
  if (form == ASSIGN) { want = tmp; expect_throw = v_ext && vd != d; }
  else if (form == CONSTRUCT) want = tmp;
  else { expect_throw = vd != d; if (!expect_throw) for (int q = 0; q < d * d; q++) want[q] = form == INCR ? oldv[q] + tmp[q] : oldv[q] - tmp[q]; }
  // ---- the statement under test -------------------------------------------------------------
  std::string shape = fmt("v %s %s | d=%d target=%s(d=%d) pattern=%s a:%s(kind %d) b:%s(kind %d) flags=%u", FORMS[form], OPS[op], d,
                          v_is_operand ? "operand" : (form == CONSTRUCT ? "new" : TARGETS[tk]), vd, PATTERNS[pat], ra ? "rvalue" : "lvalue", ka, rb ? "rvalue" : "lvalue", kb, F);
  ci.sample = shape;
  ci.label(std::string("form") + FORMS[form]); ci.label(std::string("op-") + OPS[op]); ci.label(std::string("pat-") + PATTERNS[pat]);
  if (F) ci.label(fmt("flags-%u", F));
  ci.nontrivial = pat != 0 || ra || rb || (form != CONSTRUCT && vd != d) || F != 0 || form == INCR || form == DECR;
  { std::string key = fmt("%d|%d|%d|%d|%d|%d|%d|%u|%d|%d|%d", d, form, op, v_is_operand ? 9 : tk, pat, (int)ra, (int)rb, F, ka, kb, vd); ci.set_digest(fnv1a(key.data(), key.size())); }
  Ctx c; c.form = form; c.flagsel = flagsel; c.v = V;
  uint64_t allocs0 = ledger::allocs();
  bool threw = false; std::string what;
  try { run_expr(c, op, ra, rb, A, B, sc, t, ebuf, fn, left_scalar); }
  catch (const std::runtime_error& e) { threw = true; what = e.what(); }
  uint64_t nalloc = ledger::allocs() - allocs0;
  std::string sigbase = fmt("C09|%s|%s", FORMS[form], OPS[op]);
  CHECK(threw == expect_throw, sigbase + (threw ? "|unexpected-exception" : "|missing-exception"), "threw=%d (%s) expected=%d :: %s", (int)threw, what.c_str(), (int)expect_throw, shape.c_str());
  if (threw) {
    CHECK((int)V->Dim() == vd, sigbase + "|target-resized-by-failed-statement", "%s", shape.c_str());
    if (vd > 0) {
      CHECK(&(*V)[0] == vaddr, sigbase + "|target-storage-changed-by-failed-statement", "%s", shape.c_str());
      for (int q = 0; q < vd * vd; q++) CHECK(bit_equal((*V)[q], oldv[q]), sigbase + "|target-modified-by-failed-statement", "slot %d :: %s", q, shape.c_str());
    }
    if (V != &A) for (int q = 0; q < d * d; q++) CHECK(bit_equal(A[q], av[q]) || pat == 5, sigbase + "|operand-modified-by-failed-statement", "a[%d] :: %s", q, shape.c_str());
    ci.label("throws");
    return;
  }
  SU_vector& R = form == CONSTRUCT ? *c.made : *V;
  CHECK((int)R.Dim() == d && (int)R.Size() == d * d, sigbase + "|result-dimension", "dim=%u expected %d :: %s", R.Dim(), d, shape.c_str());
  for (int q = 0; q < d * d; q++)
    CHECK(bit_equal(R[q], want[q]), sigbase + fmt("|fused-differs-from-naive|pat=%s", PATTERNS[pat]), "slot %d fused=%.17g naive=%.17g (old target %.17g, temporary %.17g) :: %s", q, R[q], want[q],
          q < (int)oldv.size() ? oldv[q] : 0.0, tmp[q], shape.c_str());
  if (form != CONSTRUCT && v_ext && vd == d) CHECK(&R[0] == vaddr, sigbase + "|external-target-left-its-buffer", "%s", shape.c_str());
  // lvalue operands that do not alias the target are unchanged
  bool a_alias = V == &A || pat == 5, b_alias = V == &B || pat == 6;
  if (!ra && !a_alias && !(rb && &B == &A)) { CHECK((int)A.Dim() == d, sigbase + "|lvalue-operand-resized", "a :: %s", shape.c_str()); for (int q = 0; q < d * d; q++) CHECK(bit_equal(A[q], av[q]), sigbase + "|lvalue-operand-modified", "a[%d] :: %s", q, shape.c_str()); }
  if (!unary && !rb && !b_alias && &B != &A) { CHECK((int)B.Dim() == d, sigbase + "|lvalue-operand-resized", "b :: %s", shape.c_str()); for (int q = 0; q < d * d; q++) CHECK(bit_equal(B[q], bvv[q]), sigbase + "|lvalue-operand-modified", "b[%d] :: %s", q, shape.c_str()); }
  if (nalloc == 0) ci.label("no-allocation"); else ci.label("allocates");
  // documented: v [op]= a op b with pre-existing, non-aliasing, equally sized operands allocates nothing
  if (form != CONSTRUCT && F == 0 && pat == 0 && vd == d && !ra && !rb) ci.label(nalloc == 0 ? "documented-no-alloc-case:ok" : "documented-no-alloc-case:ALLOCATED");
}

void enumerate(const Emit& emit, const std::string& tier) {
  // shape product at fixed operand storage kinds; values come from a fixed byte pattern
  for (int d = 2; d <= 6; d++) for (int form = 0; form < 4; form++) for (int op = 0; op < 9; op++) for (int tk = 0; tk < 5; tk++) for (int pat = 0; pat < 7; pat++)
    for (int cat = 0; cat < 4; cat++) for (int fl = 0; fl < 6; fl++) {
      bool ra = cat & 1, rb = cat & 2;
      if ((op == 1 || op == 2 || op == 3) && rb) continue;
      if (op >= 4 && op <= 7 && cat) continue;
      if (pat != 0 && pat != 4 && tk != 1) continue;   // the target kind is implied by the alias pattern
      if (tier == "quick" && fl != 0 && (d == 3 || d == 5)) continue;
      std::vector<uint8_t> b = {(uint8_t)(d - 2), (uint8_t)form, (uint8_t)op, (uint8_t)tk, (uint8_t)pat, (uint8_t)ra, (uint8_t)rb, (uint8_t)fl,
                                (uint8_t)((d + op) % 2), (uint8_t)((form + pat) % 2), 0, 0, 0, 1, (uint8_t)(op % 4)};
      for (int k = 0; k < 40; k++) b.push_back((uint8_t)(29 * k + 7 * d + 3 * op + 1));
      emit(b);
    }
}

// no defect of the pinned tree was found behind this property
void regressions() {}
