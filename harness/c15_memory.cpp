// C15 - no operation history leaks, double-frees or touches memory it does not own
#define HARNESS_MAIN_THREAD_CASES 1  // this harness owns its threads and per-thread baselines
#include "common/lib.h"
#include "common/ledger.h"
#include <SQuIDS/SQuIDS.h>
#include <sstream>

const char* PROPERTY = "C15";
const int LMAX = 400;
const char* RULE =
    "stateful: byte strings decoded into histories of up to 60 operations over a pool of 8 vectors (empty / self-owned / aligned / list- and "
    "matrix-constructed / externally backed on exact-size heap buffers, d=2..6) and 2 solver objects; the alphabet is the public interface of "
    "SU_vector, Const and SQuIDS with sound arguments, interleaved with calls that are specified to throw (unsupported dimensions and list "
    "lengths, non-square matrices, bad factory indices, dimension mismatches in every binary operation, size-changing assignment to external "
    "storage, ramp > cutoff, bad Const indices, unsorted / wrongly sized grids, log grid below 1e-10, x outside the grid); exceptions are caught "
    "per operation and the history continues. Oracle: ASan (bounds, use-after-free, double free), UBSan (incl. alignment assumptions), the "
    "library's asserts, the new[]/delete[] ledger after every operation (no foreign or double delete[]) and at the end of every history - all "
    "objects destroyed, clear_mem_cache() - the number of live blocks is back to its value before the history; LeakSanitizer at process exit for "
    "GSL objects. Non-trivial: the history contains a throwing operation and, after it, a self-owned vector is released and a later construction "
    "of the same dimension is served without calling new[] (i.e. from the block cache); distinct by digest of consumed bytes.";

struct Sol : public squids::SQuIDS {
  int d;
  Sol(unsigned nx, unsigned dd, unsigned nr, unsigned ns, double ti) : squids::SQuIDS(nx, dd, nr, ns, ti), d((int)dd) {}
  Sol(Sol&& o) : squids::SQuIDS(std::move(o)), d(o.d) {}
  Sol& operator=(Sol&& o) { squids::SQuIDS::operator=(std::move(o)); d = o.d; return *this; }
  SU_vector H0(double x, unsigned ir) const override { SU_vector h(d); for (int k = 1; k < d; k++) h[d * k + k] = 0.1 * k + 0.01 * x + ir; return h; }
  bool bad_term = false;  // HI of a wrong dimension: the library's own 'non-matching dimensions' exception is raised in the middle of an integration
  // (bad_after: the term is good for that many calls first, so the exception is raised from a later Runge-Kutta stage or a later node)
  int bad_after = 0; mutable int hi_calls = 0;
  SU_vector HI(unsigned ix, unsigned, double t) const override { int dd = bad_term && hi_calls++ >= bad_after ? (d == 2 ? 3 : 2) : d; SU_vector h(dd); for (int k = 1; k < dd * dd; k++) h[k] = 0.01 * k + 0.001 * ix + 0.002 * t; return h; }
  // the in-step view of the state is public to derived classes: read it whenever the library says it is current
  void PreDerive(double) override { volatile double x = 0; for (unsigned ix = 0; ix < nx; ix++) { for (unsigned ir = 0; ir < nrhos; ir++) x = x + estate[ix].rho[ir][0]; if (nscalars) x = x + estate[ix].scalar[0]; } (void)x; }
  SU_vector GammaRho(unsigned, unsigned, double) const override { SU_vector g(d); g[0] = 0.05; return g; }
  SU_vector InteractionsRho(unsigned, unsigned, double) const override { SU_vector g(d); g[1] = 0.01; return g; }
  double GammaScalar(unsigned, unsigned, double) const override { return 0.1; }
  double InteractionsScalar(unsigned, unsigned, double) const override { return 0.01; }
  void fill() { for (unsigned ix = 0; ix < nx; ix++) { for (unsigned ir = 0; ir < nrhos; ir++) for (int k = 0; k < d * d; k++) state[ix].rho[ir][k] = 0.1 + 0.01 * k; for (unsigned is = 0; is < nscalars; is++) state[ix].scalar[is] = 1.0; } }
  unsigned NX() const { return nx; } unsigned NR() const { return nrhos; }
  // the mixing parameters are a member derived classes use (Const params)
  void touch_params() { params.SetMixingAngle(0, 1, 0.3); params.SetPhase(0, 1, 0.1); auto U = params.GetTransformationMatrix((size_t)d); (void)U; }
};
static void warmup() {
  // thread-local scratch (expectation-value buffers, matrix holders) is created once per thread and lives until the thread ends
  {
  Sol s(2, 3, 1, 0, 0.0); s.Set_xrange(0.0, 1.0, "linear"); s.fill();
  SU_vector o(3); o[1] = 1;
  std::vector<bool> avr(3);
  s.GetExpectationValueD(o, 0, 0.5); s.GetExpectationValueD(o, 0, 0.5, 1e9, avr);
  SU_vector v(3); v[4] = 0.3; SU_vector r = o.UTransform(v, gsl_complex_rect(0, 1)); (void)r;
  }
  SU_vector::clear_mem_cache();
}
void harness_init() { quiet_gsl(); warmup(); }

enum St { ABSENT, EMPTYV, VALID, UNSPEC };
struct VS { std::unique_ptr<SU_vector> v; St st = ABSENT; int d = 0; bool ext = false; int buf = -1; };
static const int NV = 8, NB = 4;
struct Fn { double operator()(double a, double b) const { return a - 2 * b; } };

void run_case(ByteSource& s, CaseInfo& ci) {
  size_t live0 = ledger::live_blocks();
  uint64_t bad0 = ledger::bad_delete_count();
  VS v[NV];
  double* bufs[NB]; for (int b = 0; b < NB; b++) bufs[b] = nullptr;
  int bufd[NB] = {0, 0, 0, 0};
  std::unique_ptr<Sol> sol[2];
  std::string log;
  int throws = 0; bool threw_before = false, released_after_throw[7] = {false, false, false, false, false, false, false}, cache_hit_after = false;
  struct Cleanup { VS* v; double** bufs; std::unique_ptr<Sol>* sol; ~Cleanup() { for (int i = 0; i < NV; i++) v[i].v.reset(); sol[0].reset(); sol[1].reset(); for (int b = 0; b < NB; b++) free(bufs[b]); SU_vector::clear_mem_cache(); } } cleanup{v, bufs, sol};
  auto pickv = [&](int need) -> int {  // 0 absent, 1 present, 2 valid
    int cand[NV], n = 0;
    for (int q = 0; q < NV; q++) if ((need == 0 && v[q].st == ABSENT) || (need == 1 && v[q].st != ABSENT) || (need == 2 && v[q].st == VALID)) cand[n++] = q;
    unsigned r = s.choose(NV);
    return n ? cand[r % n] : -1;
  };
  auto pick_same_dim = [&](int d) -> int { int cand[NV], n = 0; for (int q = 0; q < NV; q++) if (v[q].st == VALID && v[q].d == d) cand[n++] = q; unsigned r = s.choose(NV); return n ? cand[r % n] : -1; };
  auto pick_other_dim = [&](int d) -> int { int cand[NV], n = 0; for (int q = 0; q < NV; q++) if (v[q].st == VALID && v[q].d != d) cand[n++] = q; unsigned r = s.choose(NV); return n ? cand[r % n] : -1; };
  auto set_valid = [&](int i, int d, bool ext = false, int b = -1) { v[i].st = VALID; v[i].d = d; v[i].ext = ext; v[i].buf = b; };
  auto refresh = [&](int i) {  // after an operation whose effect on shape is decided by the library: read the shape back
    if (!v[i].v) { v[i] = VS(); return; }
    int d = (int)v[i].v->Dim();
    if (d == 0) { v[i].st = EMPTYV; v[i].d = 0; } else { v[i].st = VALID; v[i].d = d; }
  };
  // numeric algorithms (matrix exponential, eigen solver) are only given finite, moderate values: NaN/inf inputs are excluded
  auto tame = [&](int i) { bool bad = false; for (unsigned k = 0; k < v[i].v->Size(); k++) { double c = (*v[i].v)[k]; if (!std::isfinite(c) || fabs(c) > 1e3) bad = true; } if (bad) v[i].v->SetAllComponents(0.25); };
  int nops = 1 + (int)s.choose(60);
  for (int step = 0; step < nops && !s.exhausted(); step++) {
    unsigned op = s.choose(48);
    char nm[80]; snprintf(nm, sizeof nm, "op%u", op);
    bool threw = false, forced_now = false;
    uint64_t allocs_before = ledger::allocs(); int live_vectors_before = 0; for (int q = 0; q < NV; q++) if (v[q].st == VALID && !v[q].ext) live_vectors_before++;
    try {
      switch (op) {
        case 0: { int i = pickv(0); if (i < 0) break; v[i].v.reset(new SU_vector()); v[i].st = EMPTYV; break; }
        case 1: case 2: {  // sized, possibly unsupported
          int i = pickv(0); if (i < 0) break;
          int d = op == 1 ? gen_dim(s) : (int[]){1, 7, 8, 9}[s.choose(4)];
          uint64_t a0 = ledger::allocs();
          v[i].v.reset(new SU_vector((unsigned)d)); set_valid(i, d);
          if (threw_before && released_after_throw[d <= 6 ? d : 0] && ledger::allocs() == a0) cache_hit_after = true;
          break;
        }
        case 3: {  // list, valid or invalid length
          int i = pickv(0); if (i < 0) break;
          int n = s.flag() ? gen_dim(s) : 0; n = n ? n * n : 1 + (int)s.choose(70);
          std::vector<double> c(n, 0.25);
          v[i].v.reset(new SU_vector(c)); refresh(i); break;
        }
        case 4: {  // matrix, valid or invalid shape
          int i = pickv(0); if (i < 0) break;
          int r = s.flag() ? gen_dim(s) : 1 + (int)s.choose(8), c = s.flag() ? r : 1 + (int)s.choose(8);
          GslMat g(r, c); for (int k = 0; k < std::min(r, c); k++) gsl_matrix_complex_set(g.m, k, k, gsl_complex_rect(k + 1.0, 0));
          if (s.flag()) v[i].v.reset(new SU_vector(g.m));
          else { std::unique_ptr<gsl_matrix_complex, void (*)(gsl_matrix_complex*)> up(gsl_matrix_complex_calloc(r, c), gsl_matrix_complex_free); v[i].v.reset(new SU_vector(std::move(up))); }
          refresh(i); break;
        }
        case 5: { int i = pickv(0); if (i < 0) break; int d = s.choose(5) == 0 ? (int[]){1, 7, 8}[s.choose(3)] : gen_dim(s); v[i].v.reset(new SU_vector(SU_vector::make_aligned(d, s.flag()))); if (v[i].v) { v[i].v->SetAllComponents(0.5); set_valid(i, d); } break; }
        case 6: {  // factories with valid or invalid arguments
          int i = pickv(0); if (i < 0) break;
          int d = s.choose(6) == 0 ? (int[]){1, 7, 8}[s.choose(3)] : gen_dim(s); int idx = (int)s.choose(d * d + 3);
          switch (s.choose(5)) { case 0: v[i].v.reset(new SU_vector(SU_vector::Projector(d, idx))); break; case 1: v[i].v.reset(new SU_vector(SU_vector::Identity(d))); break;
            case 2: v[i].v.reset(new SU_vector(SU_vector::PosProjector(d, idx))); break; case 3: v[i].v.reset(new SU_vector(SU_vector::NegProjector(d, idx))); break; default: v[i].v.reset(new SU_vector(SU_vector::Generator(d, idx))); break; }
          refresh(i); break;
        }
        case 7: {  // external, on an exact-size heap buffer
          int i = pickv(0); if (i < 0) break;
          int b = (int)s.choose(NB); bool used = false; for (int q = 0; q < NV; q++) if (v[q].st != ABSENT && v[q].buf == b) used = true;
          int d = gen_dim(s);
          if (!used || bufd[b] != d) { if (used) break; free(bufs[b]); bufs[b] = (double*)malloc(sizeof(double) * d * d); bufd[b] = d; for (int k = 0; k < d * d; k++) bufs[b][k] = 0.5 + k; }
          v[i].v.reset(new SU_vector((unsigned)d, bufs[b])); set_valid(i, d, true, b); break;
        }
        case 8: { int i = pickv(0), j = pickv(1); if (i < 0 || j < 0 || v[j].st == UNSPEC) break; v[i].v.reset(new SU_vector(*v[j].v)); refresh(i); break; }
        case 9: { int i = pickv(0), j = pickv(1); if (i < 0 || j < 0) break; St js = v[j].st; int jd = v[j].d, jb = v[j].buf; bool je = v[j].ext; v[i].v.reset(new SU_vector(std::move(*v[j].v))); v[i].st = js; v[i].d = jd; v[i].ext = je; v[i].buf = jb; if (js == VALID) v[j].st = UNSPEC; break; }
        case 10: {  // copy assign; external target of another size throws
          int i = pickv(1), j = pickv(1); if (i < 0 || j < 0 || v[j].st == UNSPEC || (v[i].st == UNSPEC && v[i].ext)) break;
          if (v[j].st == EMPTYV && v[i].st == EMPTYV && i != j) break;
          *v[i].v = *v[j].v; if (!(v[i].st == VALID && v[i].ext)) { bool e = false; refresh(i); v[i].ext = e; v[i].buf = -1; } break;
        }
        case 11: {  // move assign
          int i = pickv(1), j = pickv(1); if (i < 0 || j < 0 || i == j || (v[i].st == UNSPEC && v[i].ext) || v[j].st == UNSPEC || v[i].st == UNSPEC) break;
          bool ie = v[i].st == VALID && v[i].ext;
          VS old_i; old_i.st = v[i].st; old_i.d = v[i].d; old_i.ext = v[i].ext; old_i.buf = v[i].buf;
          *v[i].v = std::move(*v[j].v);
          if (!ie) { v[i].st = v[j].st; v[i].d = v[j].d; v[i].ext = v[j].ext; v[i].buf = v[j].buf; if (v[j].st == VALID) v[j].st = UNSPEC; /* may now hold i's old storage */ else refresh(j); }
          else if (v[j].st == VALID) v[j].st = UNSPEC;
          break;
        }
        case 12: case 13: case 14: case 15: case 16: {  // expression assignment / construction, same or different dimensions
          int j = pickv(2); if (j < 0) break;
          bool mismatch = s.choose(5) == 0;
          int k = mismatch ? pick_other_dim(v[j].d) : pick_same_dim(v[j].d); if (k < 0) break;
          int i = s.flag() ? pickv(1) : pickv(0); if (i < 0) break;
          if (v[i].st == UNSPEC) break;
          bool construct = v[i].st == ABSENT;
          SU_vector &A = *v[j].v, &B = *v[k].v;
          unsigned f = s.choose(11);
          bool mj = false;
#define APPLY(E) do { if (construct) v[i].v.reset(new SU_vector(E)); else *v[i].v = (E); } while (0)
          switch (f) {
            case 0: APPLY(A + B); break; case 1: APPLY(A - B); break; case 2: APPLY(squids::iCommutator(A, B)); break; case 3: APPLY(squids::ACommutator(A, B)); break;
            case 4: APPLY(squids::ElementwiseOperation(Fn(), A, B)); break; case 5: APPLY(A * 1.5); break; case 6: APPLY(-A); break;
            case 7: if (i == j || k == j) break; mj = true; APPLY(std::move(A) + B); break;
            case 9: { SU_vector c = B; APPLY(squids::ElementwiseProduct(A, std::move(c))); break; }   // storage of an rvalue second operand may be taken over
            case 10: { SU_vector c = A, e = B; APPLY(squids::ElementwiseOperation(Fn(), std::move(c), std::move(e))); break; }
            default: { SU_vector h(v[j].d); for (int q = 1; q < v[j].d; q++) h[v[j].d * q + q] = 0.2 * q; APPLY(A.Evolve(h, 0.7)); break; }
          }
          bool ie = !construct && v[i].st == VALID && v[i].ext; int ib = v[i].buf;
          refresh(i); if (ie) { v[i].ext = true; v[i].buf = ib; } else if (mj && v[j].ext && v[i].v && v[i].d && &(*v[i].v)[0] == bufs[v[j].buf]) { v[i].ext = true; v[i].buf = v[j].buf; }
          if (mj && i != j) v[j].st = UNSPEC;
          break;
        }
        case 17: case 18: {  // += / -= with a vector or a proxy, same or other dimension
          int i = pickv(2); if (i < 0) break;
          int j = s.choose(5) == 0 ? pick_other_dim(v[i].d) : pick_same_dim(v[i].d); if (j < 0) break;
          if (s.flag()) { if (op == 17) *v[i].v += *v[j].v; else *v[i].v -= *v[j].v; }
          else { SU_vector c = *v[j].v; if (op == 17) *v[i].v += squids::iCommutator(*v[j].v, c); else *v[i].v -= *v[j].v * 0.5; }
          break;
        }
        case 19: { int i = pickv(2), j = pickv(2); if (i < 0 || j < 0) break; volatile double r = s.flag() ? (*v[i].v) * (*v[j].v) : squids::SUTrace<>(*v[i].v, *v[j].v); (void)r; break; }
        case 20: { int i = pickv(2); if (i < 0) break; int d = v[i].d; int a = (int)s.choose(d - 1), b = a + 1 + (int)s.choose(d - 1 - a); SU_vector r = v[i].v->Rotate(a, b, 0.3, 0.2); *v[i].v = r; break; }
        case 21: {  // Rotate(matrix) with matching or mismatching size
          int i = pickv(2); if (i < 0) break; int d = v[i].d, md = s.choose(4) == 0 ? 2 + (d - 1) % 5 : d;
          GslMat g(Mat::identity(md)); SU_vector r = v[i].v->Rotate(g.m); (void)r; break;
        }
        case 22: { int i = pickv(2); if (i < 0) break; squids::Const p; p.SetMixingAngle(0, 1, 0.3); p.SetPhase(0, 1, 0.1); if (s.flag()) v[i].v->RotateToB0(p); else v[i].v->RotateToB1(p); break; }
        case 23: {
          int i = pickv(2); if (i < 0) break; int y = pick_same_dim(v[i].d); if (y < 0) break;
          squids::Const p, q; p.SetMixingAngle(0, 1, 0.4); q.SetMixingAngle(0, 1, -0.2);
          SU_vector Y = *v[y].v;
          if (s.flag()) v[i].v->WeightedRotation(p, Y, q); else { auto V = p.GetTransformationMatrix(v[i].d), W = q.GetTransformationMatrix(v[i].d); v[i].v->WeightedRotation(V.get(), Y, W.get()); }
          break;
        }
        case 24: { int i = pickv(2); if (i < 0) break; v[i].v->Transpose(); SU_vector r = v[i].v->Real(), m = v[i].v->Imag(); (void)r; (void)m; break; }
        case 25: { int i = pickv(2); if (i < 0) break; GslMat g(Mat::identity(v[i].d)); SU_vector r = s.flag() ? v[i].v->UTransform(g.m) : v[i].v->UDaggerTransform(g.m); (void)r; break; }
        case 26: { int i = pickv(2); if (i < 0) break; int j = pick_same_dim(v[i].d); if (j < 0) break; tame(i); tame(j); SU_vector r = v[i].v->UTransform(*v[j].v, gsl_complex_rect(0, 0.01 * (1 + s.choose(50)))); (void)r; break; }
        case 27: { int i = pickv(2); if (i < 0) break; tame(i); auto es = v[i].v->GetEigenSystem(s.flag()); (void)es; break; }
        case 28: { int i = pickv(2); if (i < 0) break; auto g = v[i].v->GetGSLMatrix(); std::vector<double> c = v[i].v->GetComponents(); (void)g; (void)c; break; }
        case 29: { int i = pickv(1); if (i < 0 || v[i].st != EMPTYV) break;
          // what the library itself rejects for an empty vector (tail byte chooses; each of these raises a library exception)
          switch (s.tail_choose(6)) {
            case 1: { auto es = v[i].v->GetEigenSystem(true); (void)es; break; }
            case 2: { SU_vector e2; SU_vector r(squids::iCommutator(*v[i].v, e2)); (void)r; break; }
            case 3: { SU_vector e2; SU_vector r(squids::ACommutator(*v[i].v, e2)); (void)r; break; }
            case 4: { SU_vector e2; SU_vector r(v[i].v->Evolve(e2, 0.5)); (void)r; break; }
            case 5: { GslMat g(0, 0); SU_vector r(g.m); (void)r; break; }
            default: { auto g = v[i].v->GetGSLMatrix(); (void)g; break; }
          }
          break; }  // documented to throw for an uninitialised vector
        case 30: {  // evolution buffers (exact size) through all three Prepare forms and both filters
          int i = pickv(2); if (i < 0) break; int d = v[i].d, np = d * (d - 1) / 2;
          SU_vector h(d); for (int q = 1; q < d; q++) h[d * q + q] = 0.3 * q;
          double* eb = (double*)malloc(sizeof(double) * 2 * np); struct F { double* p; ~F() { free(p); } } fr{eb};
          std::vector<bool> avr(np);
          unsigned f = s.choose(5);
          if (f == 0) h.PrepareEvolve(eb, 1.5); else if (f == 1) h.PrepareEvolve(eb, 1.5, 0.5, avr); else if (f == 2) h.PrepareEvolve(eb, 0.5, 1.5);
          else { h.PrepareEvolve(eb, 1.5); double cut = 0.5, ramp = s.flag() ? 0.2 : 0.9; if (f == 3) h.LowPassFilter(eb, cut, ramp); else h.AvgRampFilter(eb, 1.5, cut, ramp); }
          SU_vector r(v[i].v->Evolve(eb)); *v[i].v = v[i].v->Evolve(eb); (void)r; break;
        }
        case 31: { int i = pickv(2); if (i < 0) break; int j = s.choose(4) == 0 ? pick_other_dim(v[i].d) : pick_same_dim(v[i].d); if (j < 0) break; SU_vector h(v[j].d); h[v[j].d + 1] = 0.4; SU_vector r(v[i].v->Evolve(h, 0.3)); (void)r; break; }
        case 32: { int i = pickv(2); if (i < 0) break; v[i].v->SetAllComponents(0.125); *v[i].v *= 2.0; *v[i].v /= 4.0; break; }
        case 33: { int i = pickv(1), j = pickv(1); if (i < 0 || j < 0) break; volatile bool e = *v[i].v == *v[j].v; (void)e; break; }
        case 34: {  // SetBackingStore
          int i = pickv(2); if (i < 0) break; int b = (int)s.choose(NB); bool used = false; for (int q = 0; q < NV; q++) if (v[q].st != ABSENT && v[q].buf == b) used = true;
          if (used && bufd[b] != v[i].d) break;
          if (!used) { free(bufs[b]); bufs[b] = (double*)malloc(sizeof(double) * v[i].d * v[i].d); bufd[b] = v[i].d; for (int k = 0; k < bufd[b] * bufd[b]; k++) bufs[b][k] = 1.5; }
          v[i].v->SetBackingStore(bufs[b]); v[i].ext = true; v[i].buf = b; break;
        }
        case 35: { int i = pickv(2); if (i < 0) break; std::ostringstream os; os << *v[i].v; break; }
        case 36: {  // destruction
          int i = pickv(1); if (i < 0) break;
          if (v[i].st == VALID && !v[i].ext && threw_before) released_after_throw[v[i].d] = true;
          v[i] = VS(); break;
        }
        case 37:
          if (s.tail_choose(4) == 1) {  // (tail byte) more vectors of one dimension alive at once than the cache holds (32): the surplus must be freed on release
            int d = gen_dim(s); int n = 33 + (int)s.tail_choose(16);
            std::vector<SU_vector> burst; burst.reserve(n);
            for (int q = 0; q < n; q++) burst.emplace_back(SU_vector::make_aligned(d));
            ci.label("cache-overflow-burst");
            break;
          }
          SU_vector::clear_mem_cache(); for (bool& r : released_after_throw) r = false; break;
        case 38: {  // Const index checks
          squids::Const p; unsigned a = s.choose(8), b = s.choose(8);
          switch (s.choose(4)) { case 0: p.SetMixingAngle(a, b, 0.1); break; case 1: p.SetPhase(a, b, 0.1); break; case 2: p.SetEnergyDifference(a, 0.1); break; default: { auto U = p.GetTransformationMatrix(2 + s.choose(7)); (void)U; break; } }
          break;
        }
        // ---- solver objects ----------------------------------------------------------------
        case 39: { int k = (int)s.choose(2); unsigned nx = 1 + s.choose(5), d = (unsigned)gen_dim(s), nr = 1 + s.choose(2), ns = s.choose(3); double ti = s.flag() ? 0 : 1.5;
                   if (sol[k] && s.flag()) { sol[k]->ini(nx, d, nr, ns, ti); sol[k]->d = (int)d; } else sol[k].reset(new Sol(nx, d, nr, ns, ti));
                   if (nx >= 2) sol[k]->Set_xrange(1.0, 10.0, s.flag() ? "linear" : "log"); else sol[k]->Set_xrange(1.0, 1.0, "linear");
                   sol[k]->fill(); sol[k]->touch_params(); break; }
        case 40: {  // grids, valid and invalid
          int k = (int)s.choose(2); if (!sol[k]) break; unsigned nx = sol[k]->NX(); if (nx < 2) break;
          switch (s.choose(5)) { case 0: sol[k]->Set_xrange(1e-12, 1.0, "log"); break; case 1: sol[k]->Set_xrange(0.0, 1.0, "cubic"); break;
            case 2: { std::vector<double> xs(nx + 1, 1.0); sol[k]->Set_xrange(xs); break; } case 3: { std::vector<double> xs(nx); for (unsigned q = 0; q < nx; q++) xs[q] = (double)(nx - q); sol[k]->Set_xrange(xs); break; }
            default: { std::vector<double> xs(nx); for (unsigned q = 0; q < nx; q++) xs[q] = 1.0 + q; sol[k]->Set_xrange(xs); break; } }
          break;
        }
        case 41: {  // evolve with various term switches and steppers
          int k = (int)s.choose(2); if (!sol[k]) break;
          unsigned m = s.choose(32);
          sol[k]->Set_CoherentRhoTerms(m & 1); sol[k]->Set_NonCoherentRhoTerms(m & 2); sol[k]->Set_OtherRhoTerms(m & 4); sol[k]->Set_GammaScalarTerms(m & 8); sol[k]->Set_OtherScalarTerms(m & 16);
          static const gsl_odeiv2_step_type* steps[] = {gsl_odeiv2_step_rk2, gsl_odeiv2_step_rk4, gsl_odeiv2_step_rkf45, gsl_odeiv2_step_rkck, gsl_odeiv2_step_rk8pd, gsl_odeiv2_step_msadams};
          unsigned st = s.choose(6); bool adaptive = st == 5 ? true : s.flag();
          sol[k]->Set_GSL_step(steps[st]); sol[k]->Set_AdaptiveStep(adaptive); sol[k]->Set_NumSteps(20); sol[k]->Set_rel_error(1e-6); sol[k]->Set_abs_error(1e-6); sol[k]->Set_h(1e-3);
          // sometimes the integration is made to fail (minimum step far too large for the tolerance): Evolve must end in the
          // library's exception without leaking the GSL driver
          bool force_fail = adaptive && m != 0 && s.choose(6) == 0;
          forced_now = force_fail;
          // (tail byte) or a user term makes the library throw from inside the right-hand side
          bool term_throws = !force_fail && (m & 1) && s.tail_choose(8) == 1;
          struct TermRestore { Sol* p; ~TermRestore() { p->bad_term = false; } } trestore{sol[k].get()};
          sol[k]->bad_term = term_throws;
          if (force_fail) { sol[k]->Set_rel_error(1e-13); sol[k]->Set_abs_error(1e-13); sol[k]->Set_h_min(0.5); sol[k]->Set_h(0.5); }
          struct Restore { Sol* p; bool on; ~Restore() { if (on) { p->Set_h_min(1e-300); p->Set_h(1e-3); } } } restore{sol[k].get(), force_fail};
          if (term_throws) {
            static const int after[] = {0, 1, 2, 3, 5, 9, 17, 40};
            sol[k]->bad_after = after[s.tail_at(47) % 8]; sol[k]->hi_calls = 0;
            ci.label(sol[k]->bad_after ? "term-throws-at-a-later-call" : "term-throws-at-first-call");
            try { sol[k]->Evolve(0.05); }
            catch (const std::exception&) {
              // the caller keeps the object: with the numerics off the next Evolve only advances the clock and hands the in-step view to PreDerive
              sol[k]->bad_term = false; sol[k]->bad_after = 0;
              sol[k]->Set_CoherentRhoTerms(false); sol[k]->Set_NonCoherentRhoTerms(false); sol[k]->Set_OtherRhoTerms(false); sol[k]->Set_GammaScalarTerms(false); sol[k]->Set_OtherScalarTerms(false);
              sol[k]->Evolve(0.01);
              throw;
            }
            break;
          }
          sol[k]->Evolve(s.flag() && !force_fail && !term_throws ? 0.0 : 0.05); break;
        }
        case 42: {  // expectation values, inside and outside the grid
          int k = (int)s.choose(2); if (!sol[k]) break;  // (a solver with a single node is a solver too: x=1 is its node)
          // (tail byte) sometimes the operator has another dimension than the solver: every query must reject it before touching anything
          int od = sol[k]->d; if (s.tail_at(44) % 5 == 1) { od = 2 + (od - 2 + 1 + (int)(s.tail_at(45) % 4)) % 5; ci.label("query-operator-of-another-dimension"); }
          SU_vector o(od); o[1] = 1; o[0] = 0.5; unsigned ir = s.choose(sol[k]->NR());
          std::vector<bool> avr(sol[k]->d * (sol[k]->d - 1) / 2);
          double x = (double[]){1.0, 5.5, 10.0, 0.5, 11.0, -INFINITY}[s.choose(6)];
          squids::SQuIDS::expectationValueDBuffer ub(sol[k]->d);
          switch (s.choose(6)) { case 0: sol[k]->GetExpectationValue(o, ir, s.choose(sol[k]->NX())); break; case 1: sol[k]->GetExpectationValue(o, ir, s.choose(sol[k]->NX()), 0.5, avr); break;
            case 2: sol[k]->GetExpectationValueD(o, ir, x); break; case 3: sol[k]->GetExpectationValueD(o, ir, x, 0.5, avr); break; case 4: sol[k]->GetExpectationValueD(o, ir, x, ub); break;
            default: { SU_vector is = sol[k]->GetIntermediateState(ir, x); (void)is; break; } }
          break;
        }
        case 43: { int k = (int)s.choose(2); if (!sol[k]) break; double x = (double[]){1.0, 3.3, 10.0, 0.0, 12.0}[s.choose(5)]; volatile unsigned r = sol[k]->Get_i(x); (void)r; break; }
        // (tail byte) the moved-from solver is either destroyed or re-initialised and used again: after ini() it is a complete object
        case 44: { if (!sol[0]) break; std::unique_ptr<Sol> n(new Sol(std::move(*sol[0]))); bool reuse = s.tail_at(46) % 3 == 1;
                   if (reuse) { unsigned d = (unsigned)gen_dim(s); sol[0]->ini(2, d, 1, 0, 0.0); sol[0]->d = (int)d; sol[0]->Set_xrange(1.0, 10.0, "linear"); sol[0]->fill(); sol[0]->touch_params(); ci.label("moved-from-solver-reinitialised"); }
                   else sol[0].reset();
                   sol[1] = std::move(n); break; }
        case 45: { if (!sol[0] || !sol[1]) break; *sol[1] = std::move(*sol[0]); bool reuse = s.tail_at(46) % 3 == 1;
                   if (reuse) { unsigned d = (unsigned)gen_dim(s); sol[0]->ini(2, d, 1, 0, 0.0); sol[0]->d = (int)d; sol[0]->Set_xrange(1.0, 10.0, "linear"); sol[0]->fill(); sol[0]->touch_params(); ci.label("moved-from-solver-reinitialised"); }
                   else sol[0].reset();
                   break; }
        case 46: { int k = (int)s.choose(2); sol[k].reset(); break; }
        default: { int i = pickv(2); if (i < 0) break; int q = (int)s.choose(v[i].d * v[i].d); (*v[i].v)[q] = 0.75; break; }
      }
    } catch (const std::exception& e) { threw = true; }
    // a new self-owned vector appeared although operator new[] was not called: its block came from the cache
    if (!threw && threw_before && ledger::allocs() == allocs_before) {
      int now = 0; for (int q = 0; q < NV; q++) if (v[q].st == VALID && !v[q].ext) now++;
      if (now > live_vectors_before) for (int q = 0; q < NV; q++) if (v[q].st == VALID && !v[q].ext && released_after_throw[v[q].d]) cache_hit_after = true;
    }
    if (forced_now) ci.label(threw ? "forced-gsl-failure-threw" : "forced-gsl-failure-did-not-throw");
    log += nm; if (threw) { log += "!"; throws++; threw_before = true; } log += " ";
    if (threw) for (int i = 0; i < NV; i++) if (v[i].st == ABSENT) v[i].v.reset();  // a constructor that threw leaves the slot absent
    CHECK(ledger::bad_delete_count() == bad0, "C15|foreign-or-double-delete", "delete[] of %p which the allocator does not hold, after %s :: %s", ledger::last_bad, nm, log.c_str());
  }
  // quiescence: everything destroyed, cache emptied -> every block released exactly once
  for (int i = 0; i < NV; i++) v[i] = VS();
  sol[0].reset(); sol[1].reset();
  SU_vector::clear_mem_cache();
  CHECK(ledger::bad_delete_count() == bad0, "C15|foreign-or-double-delete", "at final destruction (%p) :: %s", ledger::last_bad, log.c_str());
  size_t live1 = ledger::live_blocks();
  CHECK(live1 == live0, "C15|blocks-not-released-at-quiescence", "%zu new[] block(s) still live after destroying every object and clearing the cache :: %s", live1 - live0, log.c_str());
  ci.nontrivial = throws > 0 && cache_hit_after;
  ci.label(throws ? "has-throw" : "no-throw"); if (cache_hit_after) ci.label("cache-hit-after-throw-and-release"); if (sol[0] || sol[1]) ci.label("solver");
  ci.sample = log;
}
void enumerate(const Emit&, const std::string&) {}

// fixed findings 46fd8d4 (rejected list/matrix constructors leaked) and 0bf788b (dimension-0 blocks never released)
void regressions() {
  warmup();
  size_t live0 = ledger::live_blocks();
  for (int n : {1, 2, 3, 5, 49, 64}) { try { SU_vector v(std::vector<double>(n, 0.5)); } catch (const std::exception&) {} }
  for (int r = 1; r <= 8; r++) for (int c = 1; c <= 8; c++) { if (r == c && r >= 2 && r <= 6) continue; GslMat g(r, c); try { SU_vector v(g.m); } catch (const std::exception&) {} }
  SU_vector::clear_mem_cache();
  CHECK(ledger::live_blocks() == live0, "C15|blocks-not-released-at-quiescence", "regression: rejected constructors leaked %ld block(s)", (long)ledger::live_blocks() - (long)live0);
  { SU_vector e, v(3); v = e; }
  SU_vector::clear_mem_cache();
  CHECK(ledger::live_blocks() == live0, "C15|blocks-not-released-at-quiescence", "regression: the block of a vector assigned from an empty one was never released");
  // 04d9060: library exceptions for dimension-0 operands must not leak (new[] ledger here, LeakSanitizer at exit for the GSL objects)
  {
    SU_vector e, e2, owner0(3); owner0 = e;  // owner0: dimension 0 but owning
    for (int k = 0; k < 6; k++) {
      try {
        switch (k) {
          case 0: { auto es = e.GetEigenSystem(true); (void)es; break; }
          case 1: { auto es = owner0.GetEigenSystem(true); (void)es; break; }
          case 2: { SU_vector r(squids::iCommutator(e, e2)); (void)r; break; }
          case 3: { SU_vector r(squids::ACommutator(e, e2)); (void)r; break; }
          case 4: { SU_vector r(e.Evolve(e2, 0.5)); (void)r; break; }
          default: { GslMat g(0, 0); SU_vector r(g.m); (void)r; break; }
        }
      } catch (const std::exception&) {}
    }
  }
  SU_vector::clear_mem_cache();
  CHECK(ledger::live_blocks() == live0, "C15|blocks-not-released-at-quiescence", "regression: exception paths for dimension-0 operands leaked %ld block(s)", (long)ledger::live_blocks() - (long)live0);
  // e6bfd36: the averaging queries with an operator of another dimension (ASan: heap-buffer-overflow before the exception)
  {
    Sol s4(3, 2, 1, 0, 0.0); s4.Set_xrange(1.0, 3.0, "linear"); s4.fill();
    std::vector<bool> avr(15); squids::SQuIDS::expectationValueDBuffer ub(2);
    for (int od : {3, 6}) {
      SU_vector o(od); o[1] = 1; int raised = 0;
      try { s4.GetExpectationValue(o, 0, 1, 0.5, avr); } catch (const std::exception&) { raised++; }
      try { s4.GetExpectationValueD(o, 0, 1.5, 0.5, avr); } catch (const std::exception&) { raised++; }
      try { s4.GetExpectationValueD(o, 0, 1.5, ub, 0.5, avr); } catch (const std::exception&) { raised++; }
      CHECK(raised == 3, "C15|averaged-query|operator-of-another-dimension-not-rejected", "regression: operator dimension %d on a 2-level solver, %d of 3 queries raised", od, raised);
    }
  }
  // 27f2eec: a moved-from solver that is initialised again is a complete object (its mixing parameters were left without tables)
  {
    Sol s5(2, 3, 1, 0, 0.0); Sol s6(std::move(s5));
    s5.ini(2, 2, 1, 0, 0.0); s5.d = 2; s5.Set_xrange(1.0, 2.0, "linear"); s5.fill(); s5.touch_params();
    Sol s7(2, 2, 1, 0, 0.0); s7 = std::move(s6);
    s6.ini(2, 4, 1, 0, 0.0); s6.d = 4; s6.touch_params();
  }
  // 715c5d6: interpolating queries on a one-node solver read x[1] / state[1] (ASan: heap-buffer-overflow)
  {
    Sol s1(1, 3, 1, 0, 0.0); s1.Set_xrange(1.0, 1.0, "linear"); s1.fill();
    SU_vector o(3); o[1] = 1; std::vector<bool> avr(3); squids::SQuIDS::expectationValueDBuffer ub(3);
    volatile double r = s1.GetExpectationValueD(o, 0, 1.0); r = s1.GetExpectationValueD(o, 0, 1.0, ub); r = s1.GetExpectationValueD(o, 0, 1.0, 0.5, avr); r = s1.GetExpectationValueD(o, 0, 1.0, ub, 0.5, avr); (void)r;
    SU_vector is = s1.GetIntermediateState(0, 1.0); (void)is;
  }
  // 9855a0d: after a failed integration the in-step view must alias the stored state again (ASan: use after free in PreDerive), and an
  // exception from a term function must not leak the GSL driver (LeakSanitizer at exit)
  for (const gsl_odeiv2_step_type* st : {gsl_odeiv2_step_msadams, gsl_odeiv2_step_rkf45}) {
    Sol s2(2, 2, 1, 1, 0.0); s2.Set_xrange(1.0, 2.0, "linear"); s2.fill();
    s2.Set_CoherentRhoTerms(true); s2.Set_GammaScalarTerms(true); s2.Set_GSL_step(st); s2.Set_AdaptiveStep(true);
    s2.Set_rel_error(1e-13); s2.Set_abs_error(1e-13); s2.Set_h_min(0.5); s2.Set_h(0.5);
    try { s2.Evolve(0.05); } catch (const std::exception&) {}  // (fails with msadams; whether it does is GSL's business)
    s2.Set_CoherentRhoTerms(false); s2.Set_GammaScalarTerms(false);
    s2.Evolve(0.1);  // numerics off: PreDerive reads the in-step view
  }
  {
    Sol s3(2, 3, 1, 0, 0.0); s3.Set_xrange(1.0, 2.0, "linear"); s3.fill();
    s3.Set_CoherentRhoTerms(true); s3.Set_rel_error(1e-6); s3.Set_abs_error(1e-6); s3.Set_h(1e-3);
    s3.bad_term = true;
    bool threw = false; try { s3.Evolve(0.05); } catch (const std::exception&) { threw = true; }
    CHECK(threw, "C15|throwing-term|no-exception", "regression");
    s3.bad_term = false; s3.Evolve(0.05);
  }
  // (seed C10-9) a term that throws from a later stage, whose input is a driver-internal array: the view must alias the stored state again
  for (int after : {1, 2, 3, 5, 9}) {
    Sol s5(2, 3, 1, 0, 0.0); s5.Set_xrange(1.0, 2.0, "linear"); s5.fill();
    s5.Set_CoherentRhoTerms(true); s5.Set_rel_error(1e-6); s5.Set_abs_error(1e-6); s5.Set_h(1e-3);
    s5.bad_term = true; s5.bad_after = after;
    try { s5.Evolve(0.05); } catch (const std::exception&) {}
    s5.bad_term = false; s5.Set_CoherentRhoTerms(false);
    s5.Evolve(0.1);
  }
}
