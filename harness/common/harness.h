// Common harness runtime: one run_case(bytes) per property, driven by rapidcheck (pbt),
// deterministic enumerators (enum), a saved file (replay) or libFuzzer (fuzz, when built with
// -DHARNESS_FUZZ). Collects the evidence counters and writes them as JSON.
#pragma once
#include <cstdio>
#include <cstdlib>
#include <cstring>
#include <cstdarg>
#include <string>
#include <vector>
#include <map>
#include <unordered_set>
#include <functional>
#include <exception>
#include <stdexcept>
#include <chrono>
#include <fcntl.h>
#include <unistd.h>
#include "bytesource.h"

struct Fail : public std::exception {
  std::string sig, msg;
  Fail(const std::string& s, const std::string& m) : sig(s), msg(m) {}
  const char* what() const noexcept override { return msg.c_str(); }
};
inline std::string fmt(const char* f, ...) {
  char buf[2048]; va_list ap; va_start(ap, f); vsnprintf(buf, sizeof buf, f, ap); va_end(ap); return buf;
}
#define CHECK(cond, sig, ...) do { if (!(cond)) throw Fail((sig), fmt(__VA_ARGS__)); } while (0)

struct CaseInfo {
  bool nontrivial = false;
  bool has_digest = false;
  uint64_t digest = 0;
  std::string cls;      // class label for the histogram (may contain several ';'-separated labels)
  std::string sample;   // human-readable decoding of the case
  std::vector<std::pair<std::string, double>> ratios;  // (label, err/tol) observations
  void label(const std::string& l) { if (!cls.empty()) cls += ";"; cls += l; }
  void ratio(const std::string& l, double r) { ratios.emplace_back(l, r); }
  void set_digest(uint64_t d) { has_digest = true; digest = d; }
};

// Runs f on a fresh thread and re-throws what it threw. The library keeps thread-local scratch (matrix holders, estimator
// RNG, expectation-value buffers, block caches); a case that must be a pure function of its bytes - so that a shrunk failure
// reproduces in a new process - executes on a thread of its own, where all of that state starts from scratch.
#include <thread>
template <class F>
inline void in_fresh_thread(F&& f) {
  bool failed = false, other = false, badalloc = false; std::string sig, msg;
  std::thread t([&] {
    try { f(); }
    catch (const Fail& x) { failed = true; sig = x.sig; msg = x.msg; }
    catch (const std::bad_alloc&) { badalloc = true; }
    catch (const std::exception& e) { other = true; msg = e.what(); }
  });
  t.join();
  if (failed) throw Fail(sig, msg);
  if (badalloc) throw std::bad_alloc();
  if (other) throw std::runtime_error(msg);
}

// ---- provided by each harness ---------------------------------------------------------------
extern const char* PROPERTY;
extern const int LMAX;                      // rapidcheck size (max byte-string length)
void run_case(ByteSource& s, CaseInfo& ci); // throws Fail on an oracle failure
typedef std::function<void(const std::vector<uint8_t>&)> Emit;
void enumerate(const Emit& emit, const std::string& tier);   // may be empty
extern const char* RULE;                    // evidence "rule" text
void harness_init();                        // once per process (may be empty)
void regressions();                         // plain regression checks of fixed findings, written directly against the API
                                            // (no generator, no decoder): throw Fail if a repaired defect is back

namespace hs {
struct Stats {
  uint64_t evaluations = 0, nontrivial = 0, excluded_total = 0;
  std::unordered_set<uint64_t> digests;
  std::map<std::string, uint64_t> classes;
  std::map<std::string, double> ratios;
  std::map<std::string, uint64_t> excluded;
  std::vector<std::string> samples;
  bool exhaustive_enum = false;
  bool frozen = false;
};
static Stats st;
static std::vector<std::string> known;   // signatures of open known findings (prefix match with trailing *)
static int pending_fd = -1;
static std::string workdir = ".";
static std::vector<uint8_t> last_fail_bytes; static std::string last_fail_sig, last_fail_msg, last_fail_sample;
static bool have_fail = false;

inline std::string jesc(const std::string& s) {
  std::string o; o.reserve(s.size() + 8);
  for (unsigned char c : s) {
    if (c == '"') o += "\\\""; else if (c == '\\') o += "\\\\"; else if (c == '\n') o += "\\n";
    else if (c < 0x20) { char b[8]; snprintf(b, sizeof b, "\\u%04x", c); o += b; } else o.push_back((char)c);
  }
  return o;
}
inline bool is_known(const std::string& sig) {
  for (const std::string& k : known) {
    if (!k.empty() && k.back() == '*') { if (sig.compare(0, k.size() - 1, k, 0, k.size() - 1) == 0) return true; }
    else if (k == sig) return true;
  }
  return false;
}
inline void load_known() {
  const char* e = getenv("VERIF_KNOWN");
  if (!e) return;
  std::string s(e), cur;
  for (char c : s) { if (c == '\n') { if (!cur.empty()) known.push_back(cur); cur.clear(); } else cur.push_back(c); }
  if (!cur.empty()) known.push_back(cur);
}
inline void write_pending(const uint8_t* p, size_t n) {
  if (pending_fd < 0) return;
  if (ftruncate(pending_fd, 0) != 0) return;
  ssize_t r = pwrite(pending_fd, p, n, 0); (void)r;
}
inline void record(const CaseInfo& ci, const uint8_t* p, size_t consumed, uint64_t tailmix = 0) {
  if (st.frozen) return;
  st.evaluations++;
  if (ci.nontrivial) {
    st.nontrivial++;
    uint64_t d = ci.has_digest ? ci.digest : (fnv1a(p, consumed) ^ (tailmix * 0x9e3779b97f4a7c15ULL));
    if (st.digests.size() < 400000) st.digests.insert(d);
    if (st.samples.size() < 4 && !ci.sample.empty()) st.samples.push_back(ci.sample);
  }
  if (!ci.cls.empty()) {
    size_t b = 0;
    while (b <= ci.cls.size()) {
      size_t e = ci.cls.find(';', b); if (e == std::string::npos) e = ci.cls.size();
      if (e > b) st.classes[ci.cls.substr(b, e - b)]++;
      b = e + 1;
    }
  }
  for (auto& r : ci.ratios) { double& m = st.ratios[r.first]; if (r.second > m) m = r.second; }
}
// 0 = pass (or excluded known finding), 1 = oracle failure
inline int guarded(const uint8_t* p, size_t n, std::string* sig_out = nullptr, std::string* msg_out = nullptr, std::string* sample_out = nullptr) {
  write_pending(p, n);
  CaseInfo ci;
  ByteSource s(p, n);
  std::string sig, msg;
  bool failed = false;
  try {
#ifdef HARNESS_MAIN_THREAD_CASES
    run_case(s, ci);                                   // harnesses that manage threads / per-thread baselines themselves
#else
    in_fresh_thread([&] { run_case(s, ci); });         // default: every case starts from pristine thread-local library state
#endif
  }
  catch (const Fail& f) { failed = true; sig = f.sig; msg = f.msg; }
  catch (const std::bad_alloc& e) { failed = true; sig = std::string(PROPERTY) + "|unexpected-bad_alloc"; msg = e.what(); }
  catch (const std::exception& e) {
    failed = true;
    std::string w = e.what();
    sig = std::string(PROPERTY) + "|unexpected-exception|" + w.substr(0, 60); msg = w;
  }
  if (sample_out) *sample_out = ci.sample;
  if (!failed) { record(ci, p, std::min(s.pos, n), s.tailmix); return 0; }
  if (is_known(sig)) {
    if (!st.frozen) { st.evaluations++; st.excluded[sig]++; st.excluded_total++; }
    return 0;
  }
  if (sig_out) *sig_out = sig;
  if (msg_out) *msg_out = msg;
  return 1;
}
inline void write_stats(const std::string& path, const std::string& mode, int violations) {
  FILE* f = fopen(path.c_str(), "w");
  if (!f) return;
  fprintf(f, "{\"property\":\"%s\",\"mode\":\"%s\",\"evaluations\":%llu,\"nontrivial\":%llu,\"violations\":%d,\"exhaustive_enum\":%s,\n",
          PROPERTY, mode.c_str(), (unsigned long long)st.evaluations, (unsigned long long)st.nontrivial, violations, st.exhaustive_enum ? "true" : "false");
  fprintf(f, "\"rule\":\"%s\",\n\"digests\":[", jesc(RULE).c_str());
  bool first = true;
  for (uint64_t d : st.digests) { fprintf(f, "%s\"%llx\"", first ? "" : ",", (unsigned long long)d); first = false; }
  fprintf(f, "],\n\"classes\":{");
  first = true;
  for (auto& c : st.classes) { fprintf(f, "%s\"%s\":%llu", first ? "" : ",", jesc(c.first).c_str(), (unsigned long long)c.second); first = false; }
  fprintf(f, "},\n\"ratios\":{");
  first = true;
  for (auto& c : st.ratios) { fprintf(f, "%s\"%s\":%.6g", first ? "" : ",", jesc(c.first).c_str(), c.second); first = false; }
  fprintf(f, "},\n\"excluded\":{");
  first = true;
  for (auto& c : st.excluded) { fprintf(f, "%s\"%s\":%llu", first ? "" : ",", jesc(c.first).c_str(), (unsigned long long)c.second); first = false; }
  fprintf(f, "},\n\"samples\":[");
  first = true;
  for (auto& s : st.samples) { fprintf(f, "%s\"%s\"", first ? "" : ",", jesc(s).c_str()); first = false; }
  fprintf(f, "]}\n");
  fclose(f);
}
inline void write_fail(const std::string& path, const std::vector<uint8_t>& bytes, const std::string& sig, const std::string& msg, const std::string& sample) {
  FILE* f = fopen(path.c_str(), "w");
  if (!f) return;
  fprintf(f, "{\"property\":\"%s\",\"bytes\":\"%s\",\"signature\":\"%s\",\"message\":\"%s\",\"decoded\":\"%s\"}\n",
          PROPERTY, to_hex(bytes).c_str(), jesc(sig).c_str(), jesc(msg).c_str(), jesc(sample).c_str());
  fclose(f);
}
// read a replay file: either JSON with a "bytes":"<hex>" member or raw binary
inline std::vector<uint8_t> read_case_file(const std::string& path) {
  std::vector<uint8_t> raw;
  FILE* f = fopen(path.c_str(), "rb");
  if (!f) { fprintf(stderr, "cannot open %s\n", path.c_str()); exit(2); }
  uint8_t buf[4096]; size_t r;
  while ((r = fread(buf, 1, sizeof buf, f)) > 0) raw.insert(raw.end(), buf, buf + r);
  fclose(f);
  std::string s(raw.begin(), raw.end());
  size_t k = s.find("\"bytes\"");
  if (!raw.empty() && raw[0] == '{' && k != std::string::npos) {
    size_t q1 = s.find('"', s.find(':', k)); size_t q2 = s.find('"', q1 + 1);
    return from_hex(s.substr(q1 + 1, q2 - q1 - 1));
  }
  return raw;
}
}  // namespace hs

#ifndef HARNESS_FUZZ
#include <rapidcheck.h>
int main(int argc, char** argv) {
  using namespace hs;
  if (argc < 2) { fprintf(stderr, "usage: %s pbt|enum|replay ...\n", argv[0]); return 2; }
  std::string mode = argv[1];
  load_known();
  harness_init();
  if (mode == "regress") {
    try { in_fresh_thread([] { regressions(); }); }
    catch (const Fail& f) { printf("REGRESS fail signature=%s\nmessage=%s\n", f.sig.c_str(), f.msg.c_str()); return 3; }
    catch (const std::exception& e) { printf("REGRESS fail signature=%s|regression|unexpected-exception\nmessage=%s\n", PROPERTY, e.what()); return 3; }
    printf("REGRESS ok\n");
    return 0;
  }
  if (mode == "replay") {
    if (argc < 3) return 2;
    std::vector<uint8_t> b = read_case_file(argv[2]);
    std::string sig, msg, sample;
    int r = guarded(b.data(), b.size(), &sig, &msg, &sample);
    if (r) { printf("REPLAY fail signature=%s\nmessage=%s\ndecoded=%s\n", sig.c_str(), msg.c_str(), sample.c_str()); return 3; }
    printf("REPLAY ok%s\ndecoded=%s\n", st.excluded_total ? " (excluded: matches an open known finding)" : "", sample.c_str());
    return 0;
  }
  if (argc < 4) return 2;
  std::string statsfile = argv[2]; workdir = argv[3];
  std::string tier = argc > 4 ? argv[4] : "quick";
  pending_fd = open((workdir + "/pending.bin").c_str(), O_CREAT | O_RDWR | O_TRUNC, 0644);
  int violations = 0;
  if (mode == "enum") {
    bool stop = false;
    // optional sharding of the enumeration: VERIF_ENUM_SHARD=k/n runs every n-th case starting at k
    unsigned long shard_k = 0, shard_n = 1, counter = 0;
    if (const char* e = getenv("VERIF_ENUM_SHARD")) { sscanf(e, "%lu/%lu", &shard_k, &shard_n); if (!shard_n) shard_n = 1; }
    enumerate([&](const std::vector<uint8_t>& b) {
      if (stop) return;
      if ((counter++ % shard_n) != shard_k) return;
      std::string sig, msg, sample;
      if (guarded(b.data(), b.size(), &sig, &msg, &sample)) {
        violations++; stop = true; st.frozen = true;
        write_fail(workdir + "/fail.json", b, sig, msg, sample);
      }
    }, tier);
    if (!stop) st.exhaustive_enum = true;
  } else if (mode == "pbt") {
    bool ok = rc::check(std::string(PROPERTY), [&]() {
      // three out of four byte strings have the full length LMAX (so that long decodings are not starved), the rest a length
      // uniform in 0..LMAX (short strings decode to the simplest cases); elements are drawn at the nominal size so that all 8
      // bits are uniform
      const auto elem = rc::gen::resize(rc::kNominalSize, rc::gen::arbitrary<uint8_t>());
      const std::vector<uint8_t> b = *rc::gen::weightedOneOf<std::vector<uint8_t>>({
          {3, rc::gen::container<std::vector<uint8_t>>((std::size_t)LMAX, elem)},
          {1, rc::gen::resize(LMAX, rc::gen::container<std::vector<uint8_t>>(elem))}});
      // shrinking budget: once a failure is in hand, at most 4000 further evaluations or 20 s are spent on minimising it;
      // afterwards every candidate is declared passing, which ends rapidcheck's shrink search with the best case so far
      if (have_fail) {
        static auto t0 = std::chrono::steady_clock::now();
        static long evals = 0;
        if (++evals > 4000 || std::chrono::steady_clock::now() - t0 > std::chrono::seconds(20)) return;
      }
      std::string sig, msg, sample;
      if (guarded(b.data(), b.size(), &sig, &msg, &sample)) {
        st.frozen = true; have_fail = true;
        last_fail_bytes = b; last_fail_sig = sig; last_fail_msg = msg; last_fail_sample = sample;
        RC_FAIL(sig + ": " + msg);
      }
    });
    if (!ok) {
      violations = 1;
      if (have_fail) write_fail(workdir + "/fail.json", last_fail_bytes, last_fail_sig, last_fail_msg, last_fail_sample);
    }
  } else return 2;
  write_stats(statsfile, mode, violations);
  if (pending_fd >= 0) { close(pending_fd); unlink((workdir + "/pending.bin").c_str()); }
  return violations ? 3 : 0;
}
#else
// libFuzzer entry: the oracle is inside the target; on failure the case is saved and the process traps
static bool fuzz_inited = false;
static uint64_t fuzz_execs = 0;
static void fuzz_flush() {
  const char* sf = getenv("VERIF_FUZZ_STATS");
  if (sf) hs::write_stats(std::string(sf) + "." + std::to_string((long)getpid()), "fuzz", hs::have_fail ? 1 : 0);
}
extern "C" int LLVMFuzzerTestOneInput(const uint8_t* data, size_t size) {
  using namespace hs;
  if (!fuzz_inited) {
    fuzz_inited = true; load_known(); harness_init();
    const char* wd = getenv("VERIF_FUZZ_WORKDIR"); if (wd) workdir = wd;
    atexit(fuzz_flush);
  }
  std::string sig, msg, sample;
  if (guarded(data, size, &sig, &msg, &sample)) {
    have_fail = true;
    std::vector<uint8_t> b(data, data + size);
    write_fail(workdir + "/fail." + std::to_string((long)getpid()) + ".json", b, sig, msg, sample);
    fprintf(stderr, "ORACLE FAILURE %s: %s\n", sig.c_str(), msg.c_str());
    fuzz_flush();
    __builtin_trap();
  }
  if ((++fuzz_execs & 0xffff) == 0) fuzz_flush();
  return 0;
}
#endif
