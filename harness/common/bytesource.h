// Structure-aware decoder shared by the rapidcheck, libFuzzer, enumeration and replay engines.
// Every byte string decodes to a valid case; an exhausted stream yields zeros; byte 0 always
// selects the simplest alternative so that shrinking bytes shrinks the case.
#pragma once
#include <cstdint>
#include <cstddef>
#include <cmath>
#include <cstring>
#include <vector>
#include <string>

struct ByteSource {
  const uint8_t* p; size_t n; size_t pos;
  size_t tailpos;  // bytes taken from the END of the string (side choices that must not shift the forward decoding)
  uint64_t tailmix;
  double prev;   // last double drawn (for the "neighbour" classes)
  ByteSource(const uint8_t* p_, size_t n_) : p(p_), n(n_), pos(0), tailpos(0), tailmix(0), prev(0.0) {}
  // a byte from the end of the string; 0 (the simplest alternative) when the string is too short. Used for choices added to a
  // harness after replays were saved (storage kind of an operand, ...): the forward decoding stays what it was.
  uint8_t tail_u8() { uint8_t b = tailpos < n ? p[n - 1 - tailpos] : 0; tailpos++; tailmix = tailmix * 1099511628211ULL + b + 1; return b; }
  unsigned tail_choose(unsigned k) { return k <= 1 ? 0u : (unsigned)(tail_u8() % k); }
  // a byte at a fixed distance from the end, without consuming anything: for choices added after other tail choices were in use
  uint8_t tail_at(size_t off) { uint8_t b = off < n ? p[n - 1 - off] : 0; tailmix = tailmix * 1099511628211ULL + b + 257 * (off + 1); return b; }
  bool exhausted() const { return pos >= n; }
  uint8_t u8() { return pos < n ? p[pos++] : 0; }
  // choice among k alternatives, k in 1..256
  unsigned choose(unsigned k) { return k <= 1 ? 0u : (unsigned)(u8() % k); }
  bool flag() { return u8() & 1; }
  uint32_t u16() { uint32_t a = u8(); return a | ((uint32_t)u8() << 8); }
  uint32_t u32() { uint32_t a = u16(); return a | (u16() << 16); }
  // integer in [lo,hi]
  int range(int lo, int hi) {
    unsigned span = (unsigned)(hi - lo + 1);
    if (span <= 256) return lo + (int)choose(span);
    return lo + (int)(u16() % span);
  }
  // uniform in (-1,1) with 32 random bits
  double unif() { int32_t v = (int32_t)u32(); return (double)v / 2147483648.0; }
  // uniform in [0,1)
  double unif01() { return (double)u32() / 4294967296.0; }

  static double ulp_step(double x, int dir) {
    return std::nextafter(x, dir > 0 ? INFINITY : -INFINITY);
  }

  // A double with special structure given real probability mass.
  // maxexp2: magnitudes of the log-uniform class lie in 2^[-maxexp2, maxexp2].
  double num(int maxexp2 = 20) {
    unsigned cls = choose(16);
    double r;
    switch (cls) {
      case 0: case 1: r = 0.0; break;
      case 2: r = flag() ? -1.0 : 1.0; break;
      case 3: r = (double)range(-8, 8); break;
      case 4: { int k = range(-16, 16); int m = (int)choose(6); r = std::ldexp((double)k, -m); break; }
      case 5: case 6: case 7: case 8: case 9: r = unif(); break;
      case 10: case 11: r = 4.0 * unif(); break;
      case 12: case 13: {
        int e = range(-maxexp2, maxexp2);
        double m = 1.0 + unif01();
        r = std::ldexp(flag() ? -m : m, e);
        break;
      }
      case 14: {
        unsigned k = choose(3); r = k == 0 ? prev : ulp_step(prev, k == 1 ? 1 : -1);
        // subnormal values are outside the generated domain: gradual underflow voids every relative error bound
        // (a subnormal times a coefficient is rounded to 1 part in 2, and any later large factor amplifies that)
        if (r != 0 && std::fabs(r) < 2.2250738585072014e-308) r = 0.0;
        break;
      }
      default: r = -prev; break;
    }
    prev = r;
    return r;
  }
  // generic O(1) value that is never exactly structured (dense class)
  double dense() { double r = unif(); prev = r; return r; }
  // strictly positive log-uniform
  double pos_log(int minexp2, int maxexp2) {
    int e = range(minexp2, maxexp2);
    return std::ldexp(1.0 + unif01(), e);
  }
};

// ---- byte string helpers ---------------------------------------------------------------
inline std::string to_hex(const std::vector<uint8_t>& b) {
  static const char* H = "0123456789abcdef";
  std::string s; s.reserve(b.size() * 2);
  for (uint8_t c : b) { s.push_back(H[c >> 4]); s.push_back(H[c & 15]); }
  return s;
}
inline std::vector<uint8_t> from_hex(const std::string& s) {
  std::vector<uint8_t> b;
  auto v = [](char c) -> int {
    if (c >= '0' && c <= '9') return c - '0';
    if (c >= 'a' && c <= 'f') return c - 'a' + 10;
    if (c >= 'A' && c <= 'F') return c - 'A' + 10;
    return -1;
  };
  for (size_t i = 0; i + 1 < s.size(); i += 2) {
    int a = v(s[i]), c = v(s[i + 1]);
    if (a < 0 || c < 0) break;
    b.push_back((uint8_t)(a * 16 + c));
  }
  return b;
}
inline uint64_t fnv1a(const void* data, size_t n, uint64_t h = 1469598103934665603ULL) {
  const uint8_t* p = (const uint8_t*)data;
  for (size_t i = 0; i < n; i++) { h ^= p[i]; h *= 1099511628211ULL; }
  return h;
}
