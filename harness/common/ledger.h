// Replacement of the global array allocation functions (the library obtains all component
// storage and solver arrays through new[]/delete[]), with a pointer ledger and a
// "fail exactly the k-th allocation" switch. Blocks still come from malloc, so ASan keeps
// its red zones and quarantine. Include in exactly one translation unit per executable.
#pragma once
#include <cstdlib>
#include <cstdint>
#include <cstdio>
#include <new>
#include <atomic>

namespace ledger {
static const size_t CAP = 1 << 16;  // open addressing table
struct Slot { void* p; size_t sz; };
static Slot table[CAP];
static std::atomic_flag lock_ = ATOMIC_FLAG_INIT;
static size_t live = 0;            // number of live new[] blocks
static uint64_t total_allocs = 0;  // all new[] calls
static uint64_t bad_deletes = 0;   // delete[] of a pointer the ledger does not hold
static void* last_bad = nullptr;
// fault injection: when armed, allocation number fail_at (0-based, counted over new and new[]
// on the arming thread) throws std::bad_alloc
static thread_local bool armed = false;
static thread_local long fail_at = -1;
static thread_local long alloc_count = 0;
static thread_local bool fired = false;

struct Guard { Guard() { while (lock_.test_and_set(std::memory_order_acquire)) {} } ~Guard() { lock_.clear(std::memory_order_release); } };
static inline size_t h(void* p) { return ((uintptr_t)p >> 4) * 0x9E3779B97F4A7C15ULL >> 48; }
static void add(void* p, size_t sz) {
  Guard g;
  size_t i = h(p) & (CAP - 1);
  for (size_t k = 0; k < CAP; k++, i = (i + 1) & (CAP - 1)) {
    if (table[i].p == nullptr || table[i].p == (void*)1) { table[i].p = p; table[i].sz = sz; live++; total_allocs++; return; }
  }
  fprintf(stderr, "ledger full\n"); abort();
}
static bool remove(void* p) {
  Guard g;
  size_t i = h(p) & (CAP - 1);
  for (size_t k = 0; k < CAP; k++, i = (i + 1) & (CAP - 1)) {
    if (table[i].p == p) { table[i].p = (void*)1; live--; return true; }  // tombstone
    if (table[i].p == nullptr) break;
  }
  bad_deletes++; last_bad = p;
  return false;
}
static bool holds(void* p) {
  Guard g;
  size_t i = h(p) & (CAP - 1);
  for (size_t k = 0; k < CAP; k++, i = (i + 1) & (CAP - 1)) {
    if (table[i].p == p) return true;
    if (table[i].p == nullptr) break;
  }
  return false;
}
static size_t live_blocks() { Guard g; return live; }
static uint64_t bad_delete_count() { Guard g; return bad_deletes; }
static uint64_t allocs() { Guard g; return total_allocs; }
// list live pointers (for address-distinctness checks); returns count
static size_t snapshot(void** out, size_t max) {
  Guard g; size_t n = 0;
  for (size_t i = 0; i < CAP && n < max; i++) if (table[i].p && table[i].p != (void*)1) out[n++] = table[i].p;
  return n;
}
static void arm(long k) { armed = true; fail_at = k; alloc_count = 0; fired = false; }
static long disarm() { armed = false; return alloc_count; }
static inline void maybe_fail() {
  if (armed) {
    long c = alloc_count++;
    if (c == fail_at) { fired = true; throw std::bad_alloc(); }
  }
}
}  // namespace ledger

// ThreadSanitizer's runtime defines the allocation functions itself (they cannot be replaced at link time); in that build
// the ledger is inert (all counters stay zero) and the allocation oracles are carried by the ASan build only.
#if defined(__has_feature)
#if __has_feature(thread_sanitizer)
#define LEDGER_INERT 1
#endif
#endif
#ifndef LEDGER_INERT
void* operator new[](size_t sz) {
  ledger::maybe_fail();
  void* p = malloc(sz ? sz : 1);
  if (!p) throw std::bad_alloc();
  ledger::add(p, sz);
  return p;
}
void operator delete[](void* p) noexcept {
  if (!p) return;
  if (ledger::remove(p)) free(p);
  // an unknown pointer is NOT freed (it may be a user buffer); the harness reports it
}
void operator delete[](void* p, size_t) noexcept { operator delete[](p); }
#ifdef LEDGER_FAIL_SCALAR_NEW
void* operator new(size_t sz) {
  ledger::maybe_fail();
  void* p = malloc(sz ? sz : 1);
  if (!p) throw std::bad_alloc();
  return p;
}
void operator delete(void* p) noexcept { free(p); }
void operator delete(void* p, size_t) noexcept { free(p); }
#endif
#endif  // LEDGER_INERT
