// Table-driven SQuIDS subclass with exact solutions, shared by the C04 and C10 harnesses.
#pragma once
#include "lib.h"
#include <SQuIDS/SQuIDS.h>
#include <gsl/gsl_odeiv2.h>

enum { M_COH = 1, M_NC = 2, M_OTHER = 4, M_GS = 8, M_OS = 16 };
enum Family { FAM_MANUFACTURED = 0, FAM_CONSTANT = 1, FAM_DIAGONAL = 2 };

struct Problem {
  int nx = 1, d = 2, nr = 1, ns = 0; double t_ini = 0;
  int family = FAM_DIAGONAL;
  bool manufactured_scalar = false;  // scalar target s*(t) (needs the scalar interaction switch)
  bool g_timedep = false;            // g(t) = g0 + g1 cos(w t) (only without a scalar source)
  std::vector<double> Ha, Hb, Ga, Gb, Ra, Rb, Rc;  // dense component vectors (families A, B)
  std::vector<double> D1, D2, Cd;                  // diagonal-only component vectors (family D)
  double w = 1.3, w1 = 0.9, w2 = 1.7, f0 = 0.8, f1 = 0.5;
  double g0 = 0.4, g1 = 0.25, sa = 1.0, sb = 0.5, c0 = 0.3;
  // every term depends on all of its arguments through distinct coefficients
  ld fH(int ix, int ir) const { return 1 + 0.25L * ix + 0.1L * ir; }
  ld fG(int ix, int ir) const { return 1 + 0.15L * ix - 0.05L * ir; }
  ld fR(int ix, int ir) const { return 1 - 0.1L * ix + 0.2L * ir; }
  ld fS(int ix, int is) const { return 1 + 0.2L * ix + 0.3L * is; }
  ld phase(int ix, int ir) const { return 0.3L * ix + 0.2L * ir; }
  ld fval(ld t) const { return f0 + f1 * cosl(w * t); }
  ld Fint(ld t) const { return f0 * t + f1 * sinl(w * t) / w; }
  // differences of the antiderivatives without cancelling the linear part (the clock may be far from zero)
  ld dFint(ld t0, ld t1) const { return f0 * (t1 - t0) + (f1 != 0 ? f1 * (sinl(w * t1) - sinl(w * t0)) / w : 0); }
  ld dGint(int ix, int is, ld t0, ld t1) const { return (g0 * (t1 - t0) + (g_timedep ? g1 * (sinl(w * t1) - sinl(w * t0)) / w : 0)) * fS(ix, is); }
  ld gval(int ix, int is, ld t) const { return (g0 + (g_timedep ? g1 * cosl(w * t) : 0)) * fS(ix, is); }
  ld Gint(int ix, int is, ld t) const { return (g0 * t + (g_timedep ? g1 * sinl(w * t) / w : 0)) * fS(ix, is); }
  static Mat lin(const std::vector<double>& a, ld ca, const std::vector<double>& b, ld cb, int d) { std::vector<double> z(d * d, 0.0); Mat A = a.empty() ? Mat(d) : toM(a, d), B = b.empty() ? Mat(d) : toM(b, d); return scale(A, cld(ca, 0)) + scale(B, cld(cb, 0)); }
  Mat HI(int ix, int ir, ld t) const {
    if (family == FAM_DIAGONAL) return scale(toM(D1, d), cld(fval(t) * fH(ix, ir), 0));
    if (family == FAM_CONSTANT) return scale(toM(Ha, d), cld(fH(ix, ir), 0));
    return lin(Ha, fH(ix, ir), Hb, cosl(w * t + phase(ix, ir)), d);
  }
  Mat Gamma(int ix, int ir, ld t) const {
    if (family == FAM_DIAGONAL) return scale(toM(D2, d), cld(fG(ix, ir), 0));
    if (family == FAM_CONSTANT) return scale(toM(Ga, d), cld(fG(ix, ir), 0));
    return lin(Ga, fG(ix, ir), Gb, sinl(w * t - phase(ix, ir)), d);
  }
  // manufactured target and its derivative
  Mat target(int ix, int ir, ld t) const { return lin(Ra, fR(ix, ir), Rb, sinl(w1 * t + phase(ix, ir)), d) + scale(toM(Rc, d), cld(cosl(w2 * t), 0)); }
  Mat dtarget(int ix, int ir, ld t) const { return scale(toM(Rb, d), cld(w1 * cosl(w1 * t + phase(ix, ir)), 0)) + scale(toM(Rc, d), cld(-w2 * sinl(w2 * t), 0)); }
  ld starget(int ix, int is, ld t) const { return sa * fS(ix, is) + sb * sinl(w1 * t + 0.4L * is); }
  ld dstarget(int, int is, ld t) const { return sb * w1 * cosl(w1 * t + 0.4L * is); }
  Mat source(int ix, int ir, ld t, unsigned mask) const {  // InteractionsRho
    if (family == FAM_DIAGONAL) return scale(toM(Cd, d), cld(fR(ix, ir), 0));
    if (family == FAM_CONSTANT) return Mat(d);
    Mat R = target(ix, ir, t), S = dtarget(ix, ir, t);
    if (mask & M_COH) { Mat H = HI(ix, ir, t); S = S + scale(H * R - R * H, cld(0, 1)); }
    if (mask & M_NC) { Mat G = Gamma(ix, ir, t); S = S + G * R + R * G; }
    return S;
  }
  ld ssource(int ix, int is, ld t, unsigned mask) const {
    if (!manufactured_scalar) return c0 * fS(ix, is);
    return dstarget(ix, is, t) + ((mask & M_GS) ? gval(ix, is, t) * starget(ix, is, t) : 0);
  }
  // exact propagation of one density matrix / scalar over [t0,t1] under a fixed switch mask
  Mat exact_rho(int ix, int ir, const Mat& r0, ld t0, ld t1, unsigned mask) const {
    if (family == FAM_MANUFACTURED) return (mask & M_OTHER) ? target(ix, ir, t1) : r0;  // caller guarantees r0 = target(t0) and OTHER on
    if (family == FAM_CONSTANT) {
      Mat K(d);
      if (mask & M_COH) K = K + HI(ix, ir, 0);
      if (mask & M_NC) K = K + scale(Gamma(ix, ir, 0), cld(0, -1));
      Mat U = expm_ref(scale(K, cld(0, -(t1 - t0))));
      return U * r0 * dagger(U);
    }
    Mat E = toM(D1, d), G = toM(D2, d), C = toM(Cd, d);
    Mat R(d);
    ld dF = dFint(t0, t1) * fH(ix, ir), dt = t1 - t0;
    for (int j = 0; j < d; j++) for (int k = 0; k < d; k++) {
      ld a = (mask & M_NC) ? (G.a[j][j].real() + G.a[k][k].real()) * fG(ix, ir) : 0;
      if (j != k) {
        ld ph = (mask & M_COH) ? -(E.a[j][j].real() - E.a[k][k].real()) * dF : 0;
        R.a[j][k] = r0.a[j][k] * cld(cosl(ph), sinl(ph)) * expl(-a * dt);
      } else {
        ld c = (mask & M_OTHER) ? C.a[j][j].real() * fR(ix, ir) : 0;
        ld r = r0.a[j][j].real();
        // r e^{-a dt} + c (1 - e^{-a dt})/a, written without the cancellation of c/a for small a
        R.a[j][j] = cld(r * expl(-a * dt) + c * (a * dt != 0 ? -expm1l(-a * dt) / a : dt), 0);
      }
    }
    return R;
  }
  ld exact_scalar(int ix, int is, ld s0, ld t0, ld t1, unsigned mask) const {
    if (manufactured_scalar) return (mask & M_OS) ? starget(ix, is, t1) : s0 * ((mask & M_GS) ? expl(-dGint(ix, is, t0, t1)) : 1);
    ld c = (mask & M_OS) ? c0 * fS(ix, is) : 0;
    if (!(mask & M_GS)) return s0 + c * (t1 - t0);
    if (c == 0) return s0 * expl(-dGint(ix, is, t0, t1));
    ld g = g0 * fS(ix, is);  // with a source g is constant (g_timedep is false by construction)
    ld dt = t1 - t0;
    return s0 * expl(-g * dt) + c * (g * dt != 0 ? -expm1l(-g * dt) / g : dt);
  }
};

struct CallLog {
  std::vector<int> hi, gr, ir, gs, is;  // call counts per (ix,index)
  double tmin = INFINITY, tmax = -INFINITY; bool bad_index = false;
  double last_prederive = NAN; long prederive_calls = 0; const void* last_this = nullptr;
  void reset(int nx, int nr, int ns) { hi.assign(nx * nr, 0); gr.assign(nx * nr, 0); ir.assign(nx * nr, 0); gs.assign(nx * std::max(ns, 1), 0); is.assign(nx * std::max(ns, 1), 0); tmin = INFINITY; tmax = -INFINITY; bad_index = false; }
};

struct TSolver : public squids::SQuIDS {
  const Problem* P = nullptr;
  unsigned mask = 0;          // switches as set by the harness (poison is returned for disabled terms)
  mutable CallLog log;
  TSolver() {}
  TSolver(const Problem& p) : squids::SQuIDS(p.nx, p.d, p.nr, p.ns, p.t_ini), P(&p) { log.reset(p.nx, p.nr, p.ns); }
  TSolver(TSolver&& o) : squids::SQuIDS(std::move(o)), P(o.P), mask(o.mask), log(o.log) {}
  TSolver& operator=(TSolver&& o) { squids::SQuIDS::operator=(std::move(o)); P = o.P; mask = o.mask; log = o.log; return *this; }
  void reinit(const Problem& p) { P = &p; ini(p.nx, p.d, p.nr, p.ns, p.t_ini); log.reset(p.nx, p.nr, p.ns); }
  void set_one(unsigned bit, bool on) {
    switch (bit) { case M_COH: Set_CoherentRhoTerms(on); break; case M_NC: Set_NonCoherentRhoTerms(on); break; case M_OTHER: Set_OtherRhoTerms(on); break; case M_GS: Set_GammaScalarTerms(on); break; default: Set_OtherScalarTerms(on); break; }
    if (on) mask |= bit; else mask &= ~bit;
  }
  // the five setters are called in the order given by `perm` (an index into the 120 permutations): the result must not depend on it
  void set_mask(unsigned m, unsigned perm = 0) {
    unsigned bits[5] = {M_COH, M_NC, M_OTHER, M_GS, M_OS};
    for (int i = 0; i < 5; i++) { unsigned r = perm % (5 - i); perm /= (5 - i); std::swap(bits[i], bits[i + r]); }
    for (int i = 0; i < 5; i++) set_one(bits[i], (m & bits[i]) != 0);
    mask = m;
  }
  SU_vector poison() const { SU_vector v(P->d); for (int k = 0; k < P->d * P->d; k++) v[k] = 1e6 * (1 + k); return v; }
  SU_vector from(const Mat& M) const { std::vector<ld> c = fromM(M); SU_vector v(P->d); for (int k = 0; k < P->d * P->d; k++) v[k] = (double)c[k]; return v; }
  // set by a harness around an Evolve call during which nothing may be integrated: a term function that is evaluated anyway is reported at
  // once (the interval may be astronomically long, so waiting for the integration to finish is not an option)
  bool forbid_terms = false;
  void note(std::vector<int>& cnt, unsigned ix, unsigned idx, int nidx, double t) const {
    if (forbid_terms) throw Fail("C10|no-numerics-evolve|term-function-evaluated", fmt("a term function was called at t=%.17g although all numerical terms are disabled", t));
    log.last_this = this;
    if ((int)ix >= P->nx || (int)idx >= nidx) { log.bad_index = true; return; }
    cnt[ix * nidx + idx]++; if (t < log.tmin) log.tmin = t; if (t > log.tmax) log.tmax = t;
  }
  SU_vector HI(unsigned ix, unsigned ir, double t) const override { note(log.hi, ix, ir, P->nr, t); if (!(mask & M_COH)) return poison(); return from(P->HI(ix, ir, t)); }
  SU_vector GammaRho(unsigned ix, unsigned ir, double t) const override { note(log.gr, ix, ir, P->nr, t); if (!(mask & M_NC)) return poison(); return from(P->Gamma(ix, ir, t)); }
  SU_vector InteractionsRho(unsigned ix, unsigned ir, double t) const override { note(log.ir, ix, ir, P->nr, t); if (!(mask & M_OTHER)) return poison(); return from(P->source(ix, ir, t, mask)); }
  double GammaScalar(unsigned ix, unsigned is, double t) const override { note(log.gs, ix, is, std::max(P->ns, 1), t); if (!(mask & M_GS)) return 1e6; return (double)P->gval(ix, is, t); }
  double InteractionsScalar(unsigned ix, unsigned is, double t) const override { note(log.is, ix, is, std::max(P->ns, 1), t); if (!(mask & M_OS)) return 1e6; return (double)P->ssource(ix, is, t, mask); }
  void PreDerive(double t) override { log.last_prederive = t; log.prederive_calls++; log.last_this = this; }
  // state access
  SU_vector& rho(unsigned ix, unsigned ir) { return state[ix].rho[ir]; }
  double& scalar(unsigned ix, unsigned is) { return state[ix].scalar[is]; }
  SU_vector& erho(unsigned ix, unsigned ir) { return estate[ix].rho[ir]; }
  double* escalar_ptr(unsigned ix) { return estate[ix].scalar; }
  double* scalar_ptr(unsigned ix) { return state[ix].scalar; }
};

static const gsl_odeiv2_step_type* STEPPERS[] = {gsl_odeiv2_step_rk2, gsl_odeiv2_step_rk4, gsl_odeiv2_step_rkf45, gsl_odeiv2_step_rkck, gsl_odeiv2_step_rk8pd, gsl_odeiv2_step_msadams};
static const char* STEPPER_NAMES[] = {"rk2", "rk4", "rkf45", "rkck", "rk8pd", "msadams"};
// fixed step counts giving a truncation error well below 1e-8 for O(1) generators over the given duration
inline unsigned fixed_steps(int stepper, double duration) {
  double per_unit[] = {60000, 900, 500, 500, 150, 0};
  return (unsigned)std::max(8.0, std::ceil(per_unit[stepper] * duration));
}
inline void gen_problem_coeffs(ByteSource& s, Problem& p) {
  int d = p.d;
  // the fixed offsets keep every coefficient non-zero even when the byte stream is exhausted
  int salt = 0;
  auto cheap = [&]() { return (double)((int)s.u16() - 32768) / 32768.0; };  // two bytes per coefficient
  auto dense = [&](double sc) { std::vector<double> c(d * d); for (auto& x : c) { salt++; x = sc * (0.85 * cheap() + 0.15 * std::sin(1.0 + 1.7 * salt)); } return c; };
  auto diag = [&](double sc) { std::vector<double> c(d * d, 0.0); for (int k = 1; k < d; k++) { salt++; c[d * k + k] = sc * (0.85 * cheap() + 0.15 * std::sin(1.0 + 1.7 * salt)); } c[0] = sc * cheap(); return c; };
  p.Ha = dense(1.0); p.Hb = dense(0.7); p.Ga = dense(0.4); p.Gb = dense(0.3); p.Ra = dense(1.0); p.Rb = dense(0.6); p.Rc = dense(0.5);
  p.D1 = diag(1.5); p.D2 = diag(0.5); p.Cd = diag(0.6);
  p.w = 0.7 + s.unif01(); p.w1 = 0.5 + s.unif01(); p.w2 = 1.0 + s.unif01(); p.f0 = 0.5 + s.unif01(); p.f1 = 0.2 + 0.6 * s.unif01();
  p.g0 = 0.2 + 0.5 * s.unif01(); p.g1 = 0.1 + 0.2 * s.unif01(); p.sa = 0.5 + s.unif01(); p.sb = 0.2 + 0.5 * s.unif01(); p.c0 = 0.1 + 0.4 * s.unif01();
}
