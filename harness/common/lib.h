// Glue between the byte decoder, the reference model and the library under test.
#pragma once
#include <SQuIDS/SUNalg.h>
#include <gsl/gsl_matrix.h>
#include <gsl/gsl_errno.h>
#include <memory>
#include "harness.h"
#include "ref.h"

using squids::SU_vector;

inline std::vector<double> comps(const SU_vector& v) {
  std::vector<double> c(v.Size());
  for (unsigned i = 0; i < v.Size(); i++) c[i] = v[i];
  return c;
}
inline SU_vector make_vec(const std::vector<double>& c, int d) {
  SU_vector v(d);
  for (int i = 0; i < d * d; i++) v[i] = c[i];
  return v;
}
// A vector with the given components in one of the storage kinds the library distinguishes: self-owned (sized constructor),
// externally backed on an exact-size buffer (optimally aligned / 8 mod 32 / 24 mod 32), built from a component list, from
// make_aligned, from a Hermitian matrix (components re-imposed afterwards so that they are exact), or a copy of a view.
struct VecHolder {
  std::vector<double> raw; std::unique_ptr<SU_vector> v; const char* kind = "owned";
  SU_vector& make(const std::vector<double>& c, int d, unsigned k) {
    static const char* K[] = {"owned", "external-aligned", "external+1", "external+3", "list", "make_aligned", "copy-of-view", "from-matrix"};
    kind = K[k % 8];
    switch (k % 8) {
      case 1: case 2: case 3: case 6: {
        raw.assign(d * d + 8, 7e77);
        double* b = raw.data();
        while (((uintptr_t)b) % 32 != 0) b++;
        b += (k % 8 == 2 ? 1 : k % 8 == 3 ? 3 : 0);
        for (int i = 0; i < d * d; i++) b[i] = c[i];
        if (k % 8 == 6) { SU_vector view(d, b); v.reset(new SU_vector(view)); }
        else v.reset(new SU_vector(d, b));
        break;
      }
      case 4: v.reset(new SU_vector(c)); break;
      case 5: v.reset(new SU_vector(SU_vector::make_aligned(d))); for (int i = 0; i < d * d; i++) (*v)[i] = c[i]; break;
      case 7: {
        gsl_matrix_complex* m = gsl_matrix_complex_calloc(d, d);
        v.reset(new SU_vector(m)); gsl_matrix_complex_free(m);
        for (int i = 0; i < d * d; i++) (*v)[i] = c[i];
        break;
      }
      default: v.reset(new SU_vector(d)); for (int i = 0; i < d * d; i++) (*v)[i] = c[i]; break;
    }
    return *v;
  }
};
inline Mat toM(const SU_vector& v) { return toM(comps(v), (int)v.Dim()); }
inline std::string vec_str(const std::vector<double>& c) {
  std::string s = "[";
  char b[40];
  for (size_t i = 0; i < c.size(); i++) { snprintf(b, sizeof b, "%.17g", c[i]); s += b; if (i + 1 < c.size()) s += ","; }
  return s + "]";
}
inline bool bit_equal(double a, double b) { return std::memcmp(&a, &b, sizeof a) == 0; }
// equality that identifies +0/-0 and is what operator== of the library uses
inline bool finite_vec(const std::vector<double>& c) { for (double x : c) if (!std::isfinite(x)) return false; return true; }

inline int gen_dim(ByteSource& s) { return 2 + (int)s.choose(5); }

// component vector with a pattern selector; pattern names returned for the class histogram
inline std::vector<double> gen_components(ByteSource& s, int d, std::string* pat = nullptr, int maxexp2 = 20) {
  int n = d * d;
  std::vector<double> c(n, 0.0);
  unsigned p = s.choose(6);
  const char* name = "";
  switch (p) {
    case 0: name = "zero"; break;
    case 1: { name = "single"; int k = (int)(s.u16() % (unsigned)n); c[k] = s.flag() ? s.num(maxexp2) : 1.0; if (c[k] == 0) c[k] = 1.0; break; }
    case 2: { name = "sparse"; for (int i = 0; i < n; i++) if (s.choose(4) == 1) c[i] = s.num(maxexp2); break; }
    case 3: { name = "dense"; for (int i = 0; i < n; i++) c[i] = s.dense(); break; }
    case 4: { name = "mixed"; for (int i = 0; i < n; i++) c[i] = s.num(maxexp2); break; }
    default: { name = "dense-scaled"; double sc = s.pos_log(-maxexp2, maxexp2); for (int i = 0; i < n; i++) c[i] = sc * s.dense(); break; }
  }
  if (pat) *pat = name;
  return c;
}
// always dense generic (every slot non-zero with probability ~1)
inline std::vector<double> gen_dense(ByteSource& s, int d) {
  std::vector<double> c(d * d);
  for (auto& x : c) x = s.dense();
  return c;
}
inline int nonzero_kinds(const std::vector<double>& c, int d) {
  int mask = 0;
  for (int i = 0; i < d * d; i++) if (c[i] != 0) mask |= 1 << slot_kind(d, i);
  return mask;
}
inline int count_nonzero(const std::vector<double>& c) { int k = 0; for (double x : c) if (x != 0) k++; return k; }

struct GslMat {
  gsl_matrix_complex* m;
  GslMat(int r, int c) : m(gsl_matrix_complex_calloc(r, c)) {}
  explicit GslMat(const Mat& M) : m(gsl_matrix_complex_calloc(M.n, M.n)) {
    for (int i = 0; i < M.n; i++) for (int j = 0; j < M.n; j++)
      gsl_matrix_complex_set(m, i, j, gsl_complex_rect((double)M.a[i][j].real(), (double)M.a[i][j].imag()));
  }
  ~GslMat() { gsl_matrix_complex_free(m); }
  GslMat(const GslMat&) = delete;
  operator gsl_matrix_complex*() { return m; }
};
inline Mat fromGsl(const gsl_matrix_complex* g) {
  Mat M((int)g->size1);
  for (int i = 0; i < M.n; i++) for (int j = 0; j < M.n; j++) {
    gsl_complex z = gsl_matrix_complex_get(g, i, j);
    M.a[i][j] = cld((ld)GSL_REAL(z), (ld)GSL_IMAG(z));
  }
  return M;
}
// round a reference matrix to double entries (what the library can be given)
inline Mat round_to_double(const Mat& M) {
  Mat R(M.n);
  for (int i = 0; i < M.n; i++) for (int j = 0; j < M.n; j++) R.a[i][j] = cld((ld)(double)M.a[i][j].real(), (ld)(double)M.a[i][j].imag());
  return R;
}
// a unitary built as a product of plane rotations and diagonal phases
inline Mat gen_unitary(ByteSource& s, int d) {
  Mat U = Mat::identity(d);
  unsigned kind = s.choose(4);
  if (kind == 0) return U;
  int nrot = kind == 1 ? 1 : d * (d - 1) / 2 + (int)s.choose(4);
  for (int r = 0; r < nrot; r++) {
    int i = (int)s.choose(d - 1); int j = i + 1 + (int)s.choose(d - 1 - i);
    ld th = (ld)(s.num(4) * 3.0), de = (ld)(s.num(4) * 3.0);
    U = plane_rotation(d, i, j, th, de) * U;
  }
  if (kind == 3) { std::vector<ld> ph(d); for (auto& x : ph) x = (ld)(3.2 * s.unif()); U = diag_phase(d, ph) * U; }
  return U;
}
// Hermitian matrix with double entries
inline Mat gen_hermitian(ByteSource& s, int d, int maxexp2 = 10) {
  Mat M(d);
  unsigned p = s.choose(4);
  for (int i = 0; i < d; i++) for (int j = i; j < d; j++) {
    double re = 0, im = 0;
    if (p == 1) { re = s.dense(); im = s.dense(); }
    else if (p == 2) { re = s.num(maxexp2); im = s.num(maxexp2); }
    else if (p == 3) { if (s.choose(3) == 1) { re = s.num(maxexp2); im = s.num(maxexp2); } }
    if (i == j) im = 0;
    M.a[i][j] = cld(re, im); M.a[j][i] = cld(re, -im);
  }
  return M;
}
static void quiet_gsl() { gsl_set_error_handler_off(); }
