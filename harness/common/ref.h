// Independent reference model of the SU(N) representation: closed-form generalised Gell-Mann
// basis (Tr la lb = 2 dab), dense complex algebra in long double on matrices up to 12x12.
// Nothing here calls the library.
#pragma once
#include <complex>
#include <cmath>
#include <vector>
#include <string>
#include <cstdio>
#include <algorithm>

typedef long double ld;
typedef std::complex<ld> cld;
static const ld EPS = 1.1102230246251565404e-16L;  // 2^-53
static const int RMAX = 12;
static const ld TINY = 0x1p-1060L;  // absolute slack for gradual underflow (16384 x the smallest subnormal)

struct Mat {
  int n;
  cld a[RMAX][RMAX];
  explicit Mat(int n_ = 0) : n(n_) {
    for (int i = 0; i < RMAX; i++) for (int j = 0; j < RMAX; j++) a[i][j] = cld(0, 0);
  }
  static Mat identity(int n) { Mat m(n); for (int i = 0; i < n; i++) m.a[i][i] = cld(1, 0); return m; }
  cld& operator()(int i, int j) { return a[i][j]; }
  const cld& operator()(int i, int j) const { return a[i][j]; }
};

inline Mat operator+(const Mat& A, const Mat& B) { Mat C(A.n); for (int i = 0; i < A.n; i++) for (int j = 0; j < A.n; j++) C.a[i][j] = A.a[i][j] + B.a[i][j]; return C; }
inline Mat operator-(const Mat& A, const Mat& B) { Mat C(A.n); for (int i = 0; i < A.n; i++) for (int j = 0; j < A.n; j++) C.a[i][j] = A.a[i][j] - B.a[i][j]; return C; }
inline Mat operator*(const Mat& A, const Mat& B) {
  Mat C(A.n);
  for (int i = 0; i < A.n; i++) for (int j = 0; j < A.n; j++) {
    ld re = 0, im = 0;
    for (int k = 0; k < A.n; k++) {
      const cld& x = A.a[i][k]; const cld& y = B.a[k][j];
      re += x.real() * y.real() - x.imag() * y.imag();
      im += x.real() * y.imag() + x.imag() * y.real();
    }
    C.a[i][j] = cld(re, im);
  }
  return C;
}
inline Mat scale(const Mat& A, cld s) {
  Mat C(A.n);
  for (int i = 0; i < A.n; i++) for (int j = 0; j < A.n; j++) {
    const cld& x = A.a[i][j];
    C.a[i][j] = cld(x.real() * s.real() - x.imag() * s.imag(), x.real() * s.imag() + x.imag() * s.real());
  }
  return C;
}
inline Mat dagger(const Mat& A) { Mat C(A.n); for (int i = 0; i < A.n; i++) for (int j = 0; j < A.n; j++) C.a[i][j] = std::conj(A.a[j][i]); return C; }
inline Mat transpose(const Mat& A) { Mat C(A.n); for (int i = 0; i < A.n; i++) for (int j = 0; j < A.n; j++) C.a[i][j] = A.a[j][i]; return C; }
inline cld trace(const Mat& A) { cld t(0, 0); for (int i = 0; i < A.n; i++) t += A.a[i][i]; return t; }
inline ld cabsl_(const cld& z) { return hypotl(z.real(), z.imag()); }
inline ld frob(const Mat& A) { ld s = 0; for (int i = 0; i < A.n; i++) for (int j = 0; j < A.n; j++) s += std::norm(A.a[i][j]); return sqrtl(s); }
inline ld norm1(const Mat& A) { ld m = 0; for (int j = 0; j < A.n; j++) { ld s = 0; for (int i = 0; i < A.n; i++) s += cabsl_(A.a[i][j]); m = std::max(m, s); } return m; }
inline ld maxabs(const Mat& A) { ld m = 0; for (int i = 0; i < A.n; i++) for (int j = 0; j < A.n; j++) m = std::max(m, cabsl_(A.a[i][j])); return m; }
inline bool all_finite(const Mat& A) { for (int i = 0; i < A.n; i++) for (int j = 0; j < A.n; j++) if (!std::isfinite((double)A.a[i][j].real()) || !std::isfinite((double)A.a[i][j].imag())) return false; return true; }

// ---- the representation ----------------------------------------------------------------
// component index of the symmetric generator of the pair i<j is d*i+j, of the antisymmetric
// one d*j+i, of the k-th diagonal generator d*k+k (k=1..d-1), of the identity 0.
inline ld diag_norm(int k) { return sqrtl(2.0L / ((ld)k * (ld)(k + 1))); }

template <class V>
inline Mat toM(const V& c, int d) {
  Mat M(d);
  for (int i = 0; i < d; i++) M.a[i][i] = cld((ld)c[0], 0);
  for (int i = 0; i < d; i++) for (int j = i + 1; j < d; j++) {
    ld s = (ld)c[d * i + j], a = (ld)c[d * j + i];
    M.a[i][j] = cld(s, -a);
    M.a[j][i] = cld(s, a);
  }
  for (int k = 1; k < d; k++) {
    ld w = (ld)c[d * k + k] * diag_norm(k);
    for (int m = 0; m < k; m++) M.a[m][m] += cld(w, 0);
    M.a[k][k] -= cld(w * (ld)k, 0);
  }
  return M;
}
// inverse by traces; for a non-Hermitian argument this is the representation of its Hermitian part
inline std::vector<ld> fromM(const Mat& M) {
  int d = M.n;
  std::vector<ld> c(d * d, 0.0L);
  ld tr = 0; for (int i = 0; i < d; i++) tr += M.a[i][i].real();
  c[0] = tr / (ld)d;
  for (int i = 0; i < d; i++) for (int j = i + 1; j < d; j++) {
    c[d * i + j] = (M.a[i][j].real() + M.a[j][i].real()) / 2;
    c[d * j + i] = (M.a[j][i].imag() - M.a[i][j].imag()) / 2;
  }
  for (int k = 1; k < d; k++) {
    ld s = 0; for (int m = 0; m < k; m++) s += M.a[m][m].real();
    s -= (ld)k * M.a[k][k].real();
    c[d * k + k] = s * diag_norm(k) / 2;
  }
  return c;
}
inline ld sum_abs(const std::vector<double>& c) { ld s = 0; for (double x : c) s += fabsl((ld)x); return s; }
inline ld max_abs(const std::vector<double>& c) { ld s = 0; for (double x : c) s = std::max(s, fabsl((ld)x)); return s; }

// kind of a component slot: 0 identity, 1 symmetric, 2 antisymmetric, 3 diagonal
inline int slot_kind(int d, int idx) {
  if (idx == 0) return 0;
  int r = idx / d, c = idx % d;
  if (r == c) return 3;
  return r < c ? 1 : 2;
}

// ---- exponential -----------------------------------------------------------------------
// scaling-and-squaring Taylor series in long double; series to convergence, norm scaled <= 1/2
inline Mat expm_ref(const Mat& A) {
  ld nrm = norm1(A);
  int s = 0;
  while (nrm > 0.5L) { nrm /= 2; s++; }
  Mat B = scale(A, cld(ldexpl(1.0L, -s), 0));
  Mat R = Mat::identity(A.n), T = Mat::identity(A.n);
  for (int k = 1; k < 60; k++) {
    T = scale(T * B, cld(1.0L / (ld)k, 0));
    R = R + T;
    if (maxabs(T) < 1e-24L) break;
  }
  for (int i = 0; i < s; i++) R = R * R;
  return R;
}
inline Mat expm_diag(const std::vector<cld>& l) {
  Mat R((int)l.size());
  for (int i = 0; i < R.n; i++) R.a[i][i] = std::exp(l[i]);
  return R;
}
// Frobenius norm of the Kronecker matrix of the Frechet derivative of exp at A, from
// exp([[A,E],[0,A]]) over the n^2 unit matrices E (conditioning of the problem).
inline ld frechet_exp_norm(const Mat& A) {
  int n = A.n;
  ld s = 0;
  for (int p = 0; p < n; p++) for (int q = 0; q < n; q++) {
    Mat B(2 * n);
    for (int i = 0; i < n; i++) for (int j = 0; j < n; j++) { B.a[i][j] = A.a[i][j]; B.a[n + i][n + j] = A.a[i][j]; }
    B.a[p][n + q] = cld(1, 0);
    Mat X = expm_ref(B);
    for (int i = 0; i < n; i++) for (int j = 0; j < n; j++) s += std::norm(X.a[i][n + j]);
  }
  return sqrtl(s);
}

// ---- unitaries ---------------------------------------------------------------------------
// complex plane rotation: cos on the diagonal (i,i),(j,j); sin*exp(-i delta) at (i,j);
// -sin*exp(+i delta) at (j,i)
inline Mat plane_rotation(int d, int i, int j, ld th, ld de) {
  Mat R = Mat::identity(d);
  ld c = cosl(th), s = sinl(th);
  R.a[i][i] = cld(c, 0); R.a[j][j] = cld(c, 0);
  R.a[i][j] = cld(s * cosl(de), -s * sinl(de));
  R.a[j][i] = cld(-s * cosl(de), -s * sinl(de));
  return R;
}
inline Mat diag_phase(int d, const std::vector<ld>& ph) {
  Mat R(d);
  for (int i = 0; i < d; i++) R.a[i][i] = cld(cosl(ph[i]), sinl(ph[i]));
  return R;
}
inline ld unitarity_defect(const Mat& U) { return frob(dagger(U) * U - Mat::identity(U.n)); }

inline std::string mat_str(const Mat& M) {
  std::string s = "[";
  char buf[96];
  for (int i = 0; i < M.n; i++) {
    s += "[";
    for (int j = 0; j < M.n; j++) {
      snprintf(buf, sizeof buf, "%.17g%+.17gi", (double)M.a[i][j].real(), (double)M.a[i][j].imag());
      s += buf; if (j + 1 < M.n) s += ", ";
    }
    s += "]"; if (i + 1 < M.n) s += ",";
  }
  return s + "]";
}
