// C07 - the Pade matrix exponential is accurate for every square complex matrix
#include "common/lib.h"
#include <SQuIDS/detail/MatrixExp.h>

const char* PROPERTY = "C07";
const int LMAX = 1400;
const char* RULE =
    "rapidcheck byte strings decoded into a history of 1..5 exponentials on one thread, each (n in 2..6; class: anti-Hermitian, normal "
    "W diag(z) W^dagger with bounded real spectrum, general dense, diagonal, nilpotent (permuted strictly triangular), triangular, "
    "diagonal plus one tiny off-diagonal entry, widely different row scales, rank-one nilpotent u v^dagger, sparse small-integer patterns "
    "(an embedded 2x2/3x3 block, graph Laplacians, zero-row-sum, random sparse; times 1, -1 or i); 1-norm log-uniform in 1e-8..1e3 for the normal classes and "
    "1e-8..50 for the others), each checked. Oracle: |X-exp(A)|_F <= 64 eps (|L_exp(A)|_F |A|_F + |exp(A)|_F) against the closed form "
    "(normal, diagonal, nilpotent classes) or a long-double scaling-and-squaring Taylor reference, L_exp = Kronecker form of the Frechet "
    "derivative (analytic bound n e^{max Re z} for normal matrices); plus exp(A)exp(-A)=I, exp(A^T)=exp(A)^T, exp(PAP^T)=P exp(A) P^T. "
    "enum: every placement of a 2- or 3-level zero-row-sum block in n = 2..6 levels x norms {0.137,0.4,1.5,10,40,150} x backgrounds {none, small energies on the other levels, faint dense} x {i,-1}, each on a pristine thread [exhaustive over these axes]. "
    "UTransform(V,i s) vs exp(-isV) A exp(isV) in the model, norm preservation, inversion by s -> -s, all n including 2. Non-trivial: "
    "the matrix is not diagonal (the shortcut is a separately counted class); distinct by digest of consumed bytes; classes n<k>-m<order> "
    "report the Pade band computed by the harness from exact power norms.";
void harness_init() { quiet_gsl(); }

static const char* CLS[] = {"antihermitian", "normal", "dense", "diagonal", "nilpotent", "triangular", "diag+tiny", "row-scales", "rank1-nilpotent", "sparse", "sparse", "structured-block"};

struct ExpCase { int n; unsigned cls; Mat A; Mat exact; bool has_exact; ld cond_bound; bool has_cond; ld target; };
static thread_local bool ci_background = false;

static ld gen_norm(ByteSource& s, double maxlog10) {
  // log-uniform in [1e-8, 10^maxlog10], with extra mass near the Pade band edges
  double lo = -8, hi = maxlog10;
  unsigned k = s.choose(4);
  double e;
  if (k == 0) e = -2 + 3.2 * s.unif01();          // 1e-2 .. ~16: where the order bands change
  else e = lo + (hi - lo) * s.unif01();
  return powl(10.0L, (ld)e);
}
static ExpCase gen_case(ByteSource& s) {
  ExpCase c; c.n = gen_dim(s); c.cls = s.choose(11); c.has_exact = false; c.has_cond = false; c.cond_bound = 0;
  int n = c.n;
  bool normal_cls = c.cls == 0 || c.cls == 1 || c.cls >= 9;
  ld N = gen_norm(s, normal_cls ? 3.0 : log10(50.0));
  c.target = N;
  Mat B(n);
  switch (c.cls) {
    case 0: case 1: {
      Mat W = gen_unitary(s, n);
      std::vector<cld> z(n);
      ld maxre = 0;
      for (int i = 0; i < n; i++) {
        ld im = N * (ld)s.dense();
        ld re = c.cls == 0 ? 0 : std::min<ld>(N, 3.0L) * (ld)s.dense();
        z[i] = cld(re, im); maxre = std::max(maxre, re);
      }
      Mat D(n); for (int i = 0; i < n; i++) D.a[i][i] = z[i];
      B = W * D * dagger(W);
      c.exact = W * expm_diag(z) * dagger(W); c.has_exact = true;
      c.cond_bound = (ld)n * expl(maxre); c.has_cond = true;
      c.A = round_to_double(B);
      return c;
    }
    case 2: for (int i = 0; i < n; i++) for (int j = 0; j < n; j++) B.a[i][j] = cld(s.dense(), s.dense()); break;
    case 3: {
      std::vector<cld> z(n);
      for (int i = 0; i < n; i++) { z[i] = cld((double)(N * (ld)s.dense()), (double)(N * (ld)s.dense() * 20)); B.a[i][i] = z[i]; }
      c.A = B; c.exact = expm_diag(z); c.has_exact = true;
      ld m = 0; for (int i = 0; i < n; i++) m = std::max(m, z[i].real());
      c.cond_bound = (ld)n * expl(m); c.has_cond = true;
      return c;
    }
    case 4: case 5: {
      // (strictly) upper triangular, conjugated by a permutation
      std::vector<int> perm(n); for (int i = 0; i < n; i++) perm[i] = i;
      for (int i = n - 1; i > 0; i--) { int j = (int)s.choose(i + 1); std::swap(perm[i], perm[j]); }
      Mat T(n);
      for (int i = 0; i < n; i++) for (int j = i + (c.cls == 4 ? 1 : 0); j < n; j++) T.a[i][j] = cld(s.dense(), s.dense());
      for (int i = 0; i < n; i++) for (int j = 0; j < n; j++) B.a[perm[i]][perm[j]] = T.a[i][j];
      break;
    }
    case 6: {
      for (int i = 0; i < n; i++) B.a[i][i] = cld(s.dense(), s.dense());
      int i = (int)s.choose(n), j = (int)s.choose(n); if (i == j) j = (i + 1) % n;
      B.a[i][j] = cld(std::ldexp(1.0 + s.unif01(), -s.range(1, 60)), s.flag() ? std::ldexp(1.0, -s.range(1, 60)) : 0.0);
      break;
    }
    case 8: {  // u v^dagger with v orthogonal to u: nilpotent of index 2 without being triangular; the powers of |A| grow while A^2 = 0
      std::vector<cld> u(n), v(n);
      for (int i = 0; i < n; i++) { u[i] = cld(s.dense(), s.dense()); v[i] = cld(s.dense(), s.dense()); }
      if (std::norm(u[0]) + std::norm(u[n - 1]) == 0) u[0] = cld(1, 0);
      cld uv(0, 0), uu(0, 0); for (int i = 0; i < n; i++) { uv += std::conj(u[i]) * v[i]; uu += std::conj(u[i]) * u[i]; }
      for (int i = 0; i < n; i++) v[i] -= u[i] * (uv / uu);
      for (int i = 0; i < n; i++) for (int j = 0; j < n; j++) B.a[i][j] = u[i] * std::conj(v[j]);
      break;
    }
    case 9: case 10: {  // sparse patterns with small-integer entries: matrices a sampling norm estimator can be blind to
      unsigned mode = s.choose(8), phase = s.choose(3);
      bool symmetric = false;
      Mat R(n);
      auto smallint = [&]() { int k = s.range(-3, 3); return (ld)(k == 0 ? 1 : k); };
      if (mode <= 4) {  // k x k block on a subset of the levels, everything else zero
        int k = 2 + (n > 2 ? (int)s.choose(2) : 0);
        std::vector<int> idx(n); for (int i = 0; i < n; i++) idx[i] = i;
        for (int i = n - 1; i > 0; i--) { int j = (int)s.choose(i + 1); std::swap(idx[i], idx[j]); }
        if (mode <= 3) {  // the block is a weighted graph Laplacian: rows (and columns) of the whole matrix sum to zero
          for (int a = 0; a < k; a++) for (int b = a + 1; b < k; b++) {
            ld w = (ld)s.range(1, 3);
            R.a[idx[a]][idx[b]] = R.a[idx[b]][idx[a]] = cld(-w, 0); R.a[idx[a]][idx[a]] += cld(w, 0); R.a[idx[b]][idx[b]] += cld(w, 0);
          }
          symmetric = true;
        } else {
          symmetric = s.flag();
          for (int a = 0; a < k; a++) for (int b = a; b < k; b++) {
            ld x = smallint();
            R.a[idx[a]][idx[b]] = cld(x, 0);
            R.a[idx[b]][idx[a]] = cld(symmetric || a == b ? x : smallint(), 0);
          }
        }
      } else if (mode == 5) {  // weighted graph Laplacian on all levels
        for (int i = 0; i < n; i++) for (int j = i + 1; j < n; j++) if (s.flag()) {
          ld w = (ld)s.range(1, 3); R.a[i][j] = R.a[j][i] = cld(-w, 0); R.a[i][i] += cld(w, 0); R.a[j][j] += cld(w, 0);
        }
        symmetric = true;
      } else if (mode == 6) {  // zero row sums only
        for (int i = 0; i < n; i++) { ld sum = 0; for (int j = 0; j < n; j++) if (j != i && s.flag()) { ld w = smallint(); R.a[i][j] = cld(w, 0); sum += w; } R.a[i][i] = cld(-sum, 0); }
      } else {
        for (int i = 0; i < n; i++) for (int j = 0; j < n; j++) if (s.choose(3) == 0) R.a[i][j] = cld(smallint(), s.flag() ? (double)smallint() : 0.0);
      }
      // (tail byte) a faint background on every other entry: the pattern is then not exactly blind to a sampling estimator, only nearly
      unsigned bgk = s.tail_choose(4);
      if (bgk == 1) {
        ld bg = powl(10.0L, -(ld)(2 + s.tail_choose(8)));
        for (int i = 0; i < n; i++) for (int j = i; j < n; j++) if (R.a[i][j] == cld(0, 0) && R.a[j][i] == cld(0, 0)) { ld v = bg * (1 + (ld)((i * 7 + j * 3) % 5)); R.a[i][j] = R.a[j][i] = cld(v, 0); }
        ci_background = true;
      }
      bool antiherm = symmetric && phase == 2;
      if (s.flag()) N = powl(10.0L, 3 * (ld)s.unif01());  // half of the class in the scaling-and-squaring range
      if (!antiherm && N > 50) N = 50 * (N / 1000);  // the wide norm range is for the normal, bounded-spectrum matrices only
      c.target = N;
      cld ph = phase == 0 ? cld(1, 0) : phase == 1 ? cld(-1, 0) : cld(0, 1);
      B = scale(R, ph);
      if (antiherm) { c.cond_bound = (ld)n; c.has_cond = true; }
      break;
    }
    default: {
      for (int i = 0; i < n; i++) { ld rs = ldexpl(1.0L, -s.range(0, 24)); for (int j = 0; j < n; j++) B.a[i][j] = cld((double)(rs * (ld)s.dense()), (double)(rs * (ld)s.dense())); }
      break;
    }
  }
  ld nb = norm1(B);
  if (nb == 0) nb = 1;
  c.A = round_to_double(scale(B, cld(N / nb, 0)));
  if (c.cls == 4) {  // finite Taylor sum is exact
    Mat R = Mat::identity(n), T = Mat::identity(n);
    for (int k = 1; k < n; k++) { T = scale(T * c.A, cld(1.0L / (ld)k, 0)); R = R + T; }
    c.exact = R; c.has_exact = true;
  }
  return c;
}
// Structured family (also enumerated exhaustively, see enumerate()): a k-level mixing block with zero row sums - the Laplacian of the complete
// graph on k of the n levels - times i or -1, scaled to a listed norm, on a background of nothing / small distinct energies on the other
// levels / a faint dense symmetric matrix. Which placements a sampling norm estimator is blind to depends on the indices, so every
// placement is a case of its own.
static const double STRUCT_NORMS[] = {0.137, 0.4, 1.5, 10.0, 40.0, 150.0};
static ExpCase gen_structured(ByteSource& s) {
  ExpCase c; c.n = gen_dim(s); c.cls = 11; c.has_exact = false; c.has_cond = true;
  int n = c.n, k = 2 + (int)s.choose(2); if (k > n) k = n;
  bool used[6] = {false, false, false, false, false, false}; int cnt = 0;
  for (int q = 0; q < k; q++) { int i = (int)s.choose(n); if (!used[i]) { used[i] = true; cnt++; } }
  for (int i = 0; i < n && cnt < k; i++) if (!used[i]) { used[i] = true; cnt++; }
  ld N = STRUCT_NORMS[s.choose(6)];
  unsigned bg = s.choose(3), phase = s.choose(2);
  Mat R(n);
  for (int i = 0; i < n; i++) for (int j = 0; j < n; j++) if (used[i] && used[j]) R.a[i][j] = cld(i == j ? (ld)(k - 1) : -1.0L, 0);
  ld fac = N / (2 * (ld)(k - 1));  // 1-norm of the block is 2(k-1)
  Mat B = scale(R, cld(fac, 0));
  if (bg == 1) { for (int i = 0; i < n; i++) if (!used[i]) B.a[i][i] = cld(1e-3L * (i + 1), 0); }
  else if (bg == 2) { for (int i = 0; i < n; i++) for (int j = i; j < n; j++) if (!(used[i] && used[j])) { ld v = 1e-4L * (1 + (i * 7 + j * 3) % 5); B.a[i][j] = B.a[j][i] = cld(v, 0); } }
  if (phase == 1 && N > 50) { B = scale(B, cld(50 / N, 0)); N = 50; }
  c.target = N;
  c.A = round_to_double(scale(B, phase == 0 ? cld(0, 1) : cld(-1, 0)));
  c.cond_bound = (ld)n * (phase == 0 ? 1.0L : expl(1e-2L * n));  // normal matrix: n e^{max Re z}; the spectrum of -B lies below the background
  return c;
}
static bool is_diagonal(const Mat& A) { for (int i = 0; i < A.n; i++) for (int j = 0; j < A.n; j++) if (i != j && A.a[i][j] != cld(0, 0)) return false; return true; }
static int band_of(const Mat& A, int* sq) {
  Mat A2 = A * A, A4 = A2 * A2, A6 = A4 * A2, A8 = A4 * A4, A10 = A4 * A6;
  ld d4 = powl(norm1(A4), 0.25L), d6 = powl(norm1(A6), 1.0L / 6), d8 = powl(norm1(A8), 0.125L), d10 = powl(norm1(A10), 0.1L);
  *sq = 0;
  if (std::max(d4, d6) < 1.495585217958292e-2L) return 3;
  if (std::max(d4, d6) < 2.539398330063230e-1L) return 5;
  ld eta3 = std::max(d6, d8);
  if (eta3 < 9.504178996162932e-1L) return 7;
  if (eta3 < 2.097847961257068L) return 9;
  ld eta5 = std::min(eta3, std::max(d8, d10));
  int u = (int)ceill(log2l(eta5 / 4.25L)); *sq = std::max(u, 0);
  return 13;
}
static Mat lib_exp(const Mat& A) {
  GslMat in(A), out(A.n, A.n);
  squids::math_detail::matrix_exponential(out.m, in.m);
  // the argument must not be modified
  CHECK(maxabs(fromGsl(in.m) - A) == 0, "C07|matrix_exponential|argument-modified", "n=%d", A.n);
  return fromGsl(out.m);
}
// returns the absolute tolerance used
static ld check_exp(const ExpCase& c, CaseInfo& ci, Mat* Xout, Mat* Eout) {
  int n = c.n;
  int sq = 0; int band = is_diagonal(c.A) ? 0 : band_of(c.A, &sq);
  ci.label(fmt("n%d-m%d", n, band)); ci.label(std::string("cls-") + CLS[c.cls]); if (ci_background) { ci.label("sparse-with-background"); ci_background = false; }
  if (band == 13) ci.label(fmt("squarings-%d", std::min(sq, 9)));
  std::string ctx = fmt("n=%d class=%s target-norm=%.3Lg band=%d A=%s", n, CLS[c.cls], c.target, band, mat_str(c.A).c_str());
  ci.sample = ctx;
  Mat X(n);
  try { X = lib_exp(c.A); }
  catch (const Fail&) { throw; }
  catch (const std::exception& e) { throw Fail(fmt("C07|matrix_exponential|throws|n=%d", n), fmt("exception '%s' :: %s", e.what(), ctx.c_str())); }
  CHECK(all_finite(X), fmt("C07|matrix_exponential|nonfinite|n=%d|m=%d", n, band), "%s", ctx.c_str());
  Mat E = c.has_exact ? c.exact : expm_ref(c.A);
  ld cond = c.has_cond ? c.cond_bound : frechet_exp_norm(c.A);
  ld tol = 64 * EPS * (cond * frob(c.A) + frob(E));
  ld err = frob(X - E);
  ci.ratio(fmt("expm-n%d-m%d", n, band), (double)(err / tol));
  CHECK(err <= tol, fmt("C07|matrix_exponential|inaccurate|m=%d", band), "|X-exp(A)|_F=%.3Lg tol=%.3Lg (%.3Lg eps rel) cond=%.3Lg :: %s", err, tol, err / (EPS * frob(E)), cond, ctx.c_str());
  if (Xout) *Xout = X;
  if (Eout) *Eout = E;
  return tol;
}

// (cases run on a fresh thread: harness.h default) - the per-thread scratch and, for C07, the call history start from scratch
void run_case(ByteSource& s, CaseInfo& ci) {
  unsigned sub = s.choose(6);
  if (sub == 5) {  // the structured block family, one exponential on a pristine thread
    ExpCase c = gen_structured(s);
    check_exp(c, ci, nullptr, nullptr);
    ci.nontrivial = !is_diagonal(c.A);
    ci.label("structured-family");
    return;
  }
  if (sub >= 3) {  // UTransform(V, i s); sub 4: V a sparse small-integer Hermitian pattern
    int d = gen_dim(s);
    Mat W = gen_unitary(s, d);
    std::vector<ld> lam(d); for (auto& x : lam) x = (ld)(3 * s.dense());
    Mat D(d); for (int i = 0; i < d; i++) D.a[i][i] = cld(lam[i], 0);
    Mat HV = W * D * dagger(W);
    if (sub == 4) {
      HV = Mat(d);
      unsigned mode = s.choose(3);
      std::vector<int> idx(d); for (int i = 0; i < d; i++) idx[i] = i;
      for (int i = d - 1; i > 0; i--) { int j = (int)s.choose(i + 1); std::swap(idx[i], idx[j]); }
      if (mode == 0) { HV.a[idx[0]][idx[0]] = HV.a[idx[1]][idx[1]] = cld(1, 0); HV.a[idx[0]][idx[1]] = HV.a[idx[1]][idx[0]] = cld(-1, 0); }
      else if (mode == 1) { for (int i = 0; i < d; i++) for (int j = i + 1; j < d; j++) if (s.flag()) { ld w = (ld)s.range(1, 3); HV.a[i][j] = HV.a[j][i] = cld(-w, 0); HV.a[i][i] += cld(w, 0); HV.a[j][j] += cld(w, 0); } }
      else { for (int i = 0; i < d; i++) for (int j = i; j < d; j++) if (s.choose(3) == 0) { cld w((ld)s.range(-2, 2), i == j ? 0.0L : (ld)s.range(-2, 2)); HV.a[i][j] = w; HV.a[j][i] = std::conj(w); } }
    }
    std::vector<ld> vc = fromM(HV);
    std::vector<double> v(d * d); for (int i = 0; i < d * d; i++) v[i] = (double)vc[i];
    double sc = s.flag() ? (double)gen_norm(s, 2.3) : s.num(6);
    if (s.flag()) sc = -sc;
    if (sub == 4) { ld nv = norm1(HV); if (fabsl((ld)sc) * nv > 1000) sc = (double)((ld)sc * (1000 / (fabsl((ld)sc) * nv))); }  // stay inside the stated norm range
    std::vector<double> a = gen_dense(s, d);
    ci.label(fmt("utransform-d%d", d)); if (sub == 4) ci.label("utransform-sparse-V");
    ci.sample = fmt("UTransform(V,i*s) d=%d s=%.17g V=%s A=%s", d, sc, vec_str(v).c_str(), vec_str(a).c_str());
    SU_vector V = make_vec(v, d), A = make_vec(a, d);
    Mat MV = toM(v, d);
    ci.nontrivial = !is_diagonal(MV) && sc != 0;
    SU_vector R;
    try { R = A.UTransform(V, gsl_complex_rect(0.0, sc)); }
    catch (const std::exception& e) { throw Fail(fmt("C07|UTransform|throws|d=%d", d), fmt("exception '%s' :: %s", e.what(), ci.sample.c_str())); }
    std::vector<cld> ph(d); for (int i = 0; i < d; i++) ph[i] = cld(0, (ld)sc * lam[i]);
    Mat U = sub == 4 ? expm_ref(scale(toM(v, d), cld(0, (ld)sc))) : W * expm_diag(ph) * dagger(W);  // exp(i s V)
    Mat MA = toM(a, d);
    std::vector<ld> want = fromM(dagger(U) * MA * U);
    ld amax = max_abs(a);
    ld tol = 256 * EPS * ((ld)d * fabsl((ld)sc) * frob(MV) + d) * amax * d;
    for (int i = 0; i < d * d; i++) {
      ld err = fabsl((ld)R[i] - want[i]);
      ci.ratio(fmt("utransform-d%d", d), (double)(err / (tol + TINY)));
      CHECK(err <= tol + TINY, fmt("C07|UTransform|not-similarity|d=%d", d), "slot %d lib=%.17g model=%.17Lg err=%.3Lg tol=%.3Lg :: %s", i, R[i], want[i], err, tol, ci.sample.c_str());
    }
    double n0 = A * A, n1 = R * R;
    CHECK(fabsl((ld)n0 - (ld)n1) <= 4 * tol * amax * d * d + TINY, fmt("C07|UTransform|norm-not-preserved|d=%d", d), "%.17g vs %.17g", n0, n1);
    SU_vector back = R.UTransform(V, gsl_complex_rect(0.0, -sc));
    for (int i = 0; i < d * d; i++) CHECK(fabsl((ld)back[i] - (ld)a[i]) <= 2 * tol + TINY, fmt("C07|UTransform|not-inverted-by-minus-s|d=%d", d), "slot %d %.17g vs %.17g", i, back[i], a[i]);
    CHECK(comps(A) == a && comps(V) == v, "C07|UTransform|operand-modified", "d=%d", d);
    return;
  }
  int hist = sub == 0 ? 0 : (int)s.choose(5);
  ci.label(fmt("history-%d", hist));
  bool any_nondiag = false;
  std::string samp;
  for (int h = 0; h <= hist; h++) {
    ExpCase c = gen_case(s);
    if (!is_diagonal(c.A)) any_nondiag = true;
    Mat X, E;
    ld tol = check_exp(c, ci, &X, &E);
    samp = fmt("history=%d last: n=%d class=%s norm1=%.6Lg A=%s", hist, c.n, CLS[c.cls], norm1(c.A), mat_str(c.A).c_str());
    if (h == hist && !is_diagonal(c.A)) {
      unsigned rel = s.choose(4);
      int n = c.n;
      if (rel == 1) {  // exp(A) exp(-A) = I
        Mat Y = lib_exp(scale(c.A, cld(-1, 0)));
        ld nEm = frob(Y);
        ld t2 = 4 * (tol * nEm + tol * frob(E)) * n + 64 * n * EPS * frob(E) * nEm;
        ld err = frob(X * Y - Mat::identity(n));
        ci.ratio("inverse-relation", (double)(err / t2));
        CHECK(err <= t2, fmt("C07|matrix_exponential|inverse-relation|n=%d", n), "|exp(A)exp(-A)-I|=%.3Lg tol=%.3Lg :: %s", err, t2, samp.c_str());
        ci.label("rel-inverse");
      } else if (rel == 2) {  // transpose
        Mat Y = lib_exp(transpose(c.A));
        ld err = frob(Y - transpose(E));
        CHECK(err <= tol, fmt("C07|matrix_exponential|transpose-relation|n=%d", n), "err=%.3Lg tol=%.3Lg :: %s", err, tol, samp.c_str());
        ci.label("rel-transpose");
      } else if (rel == 3) {  // permutation similarity
        std::vector<int> perm(n); for (int i = 0; i < n; i++) perm[i] = i;
        for (int i = n - 1; i > 0; i--) { int j = (int)s.choose(i + 1); std::swap(perm[i], perm[j]); }
        Mat PA(n), PE(n);
        for (int i = 0; i < n; i++) for (int j = 0; j < n; j++) { PA.a[perm[i]][perm[j]] = c.A.a[i][j]; PE.a[perm[i]][perm[j]] = E.a[i][j]; }
        Mat Y = lib_exp(PA);
        ld err = frob(Y - PE);
        CHECK(err <= tol, fmt("C07|matrix_exponential|permutation-relation|n=%d", n), "err=%.3Lg tol=%.3Lg :: %s", err, tol, samp.c_str());
        ci.label("rel-permutation");
      }
    }
  }
  ci.nontrivial = any_nondiag;
  ci.sample = samp;
}
// every placement of a 2- or 3-level block in n = 2..6 levels x the listed norms x three backgrounds x {i, -1}
void enumerate(const Emit& emit, const std::string&) {
  for (int n = 2; n <= 6; n++) for (int k = 2; k <= std::min(3, n); k++)
    for (int i0 = 0; i0 < n; i0++) for (int i1 = i0 + 1; i1 < n; i1++) for (int i2 = (k == 3 ? i1 + 1 : 0); i2 < (k == 3 ? n : 1); i2++)
      for (int nn = 0; nn < 6; nn++) for (int bg = 0; bg < 3; bg++) for (int ph = 0; ph < 2; ph++) {
        std::vector<uint8_t> b = {5, (uint8_t)(n - 2), (uint8_t)(k - 2), (uint8_t)i0, (uint8_t)i1};
        if (k == 3) b.push_back((uint8_t)i2);
        b.push_back((uint8_t)nn); b.push_back((uint8_t)bg); b.push_back((uint8_t)ph);
        emit(b);
      }
}

// fixed findings 1fa82e3 (every non-diagonal 2x2 exponential threw), 36de8f6 (order-9 approximant without its A^8 terms), 35624de (estimator returning 0)
void regressions() {
  CaseInfo ci;
  { ExpCase c; c.n = 2; c.cls = 6; c.has_exact = false; c.has_cond = false; c.cond_bound = 0; c.target = 0.01; c.A = Mat(2); c.A.a[0][1] = cld(0.01, 0); check_exp(c, ci, nullptr, nullptr); }
  { ExpCase c; c.n = 2; c.cls = 6; c.has_exact = false; c.has_cond = false; c.cond_bound = 0; c.target = 42; c.A = Mat(2); c.A.a[0][0] = cld(0.44599101574316302, 0); c.A.a[0][1] = cld(41.994924149057375, 0); check_exp(c, ci, nullptr, nullptr); }
  for (int n = 2; n <= 6; n++) for (double nrm : {1.0, 1.5, 2.0, 3.0}) {  // the order-9 band in every dimension
    ExpCase c; c.n = n; c.cls = 2; c.has_exact = false; c.has_cond = false; c.cond_bound = 0; c.target = nrm; Mat B(n);
    for (int i = 0; i < n; i++) for (int j = 0; j < n; j++) B.a[i][j] = cld(std::sin(1.0 + i + 2.0 * j), std::cos(0.5 + 3.0 * i - j));
    c.A = round_to_double(scale(B, cld((ld)nrm / norm1(B), 0)));
    check_exp(c, ci, nullptr, nullptr);
  }
  // 35624de: norm estimator blind to zero-row-sum blocks (estimate 0): i*s*[[1,-1],[-1,1]] on two levels of a larger matrix, repeated so that
  // the estimator's random columns vary; small norms picked too low an order, large ones skipped the scaling
  for (int n = 3; n <= 6; n++) for (int a = 0; a < n; a++) for (int b = a + 1; b < n; b++) for (double sN : {0.137, 1.5, 40.0}) for (int rep = 0; rep < 6; rep++) {
    ExpCase c; c.n = n; c.cls = 9; c.has_exact = false; c.has_cond = true; c.cond_bound = n; c.target = 2 * sN; c.A = Mat(n);
    c.A.a[a][a] = c.A.a[b][b] = cld(0, sN); c.A.a[a][b] = c.A.a[b][a] = cld(0, -sN);
    check_exp(c, ci, nullptr, nullptr);
  }
  SU_vector a(2), v(2); a[1] = 0.3; a[3] = -0.2; v[1] = 0.7; v[2] = 0.1;
  SU_vector r = a.UTransform(v, gsl_complex_rect(0, 0.5));
  CHECK(std::isfinite(r[1]) && fabs((r * r) - (a * a)) < 1e-13, "C07|UTransform|regression|d=2", "UTransform in dimension 2");
}
