// C12 - the eigen-decomposition returned for a vector is valid for every Hermitian input
#include "common/lib.h"

const char* PROPERTY = "C12";
const int LMAX = 500;
const char* RULE =
    "rapidcheck byte strings decoded into (d in 2..6; class: dense, sparse, diagonal, projector, multiple of the identity, single "
    "generator, constructed W diag(l) W^dagger with repeated eigenvalues, near-degenerate gaps 1e-3..1e-14, zero matrix, (0,2)-entry "
    "zero with the rest dense; overall magnitude 2^-100..2^100 and mixed scales inside one matrix; order true/false). Oracle (validity "
    "predicate, many outputs are correct): every returned number finite; |M V - V diag(L)|_F <= 1e-12 |M|_F; |V^dagger V - I|_F <= "
    "1e-12; L ascending when ordering is requested; L matches the constructed spectrum where known. M is the model matrix of the "
    "actual components. Non-trivial: every case (structured classes are the point); distinct by digest of consumed bytes; classes "
    "are reported per (class, d).";
void harness_init() { quiet_gsl(); }

static const char* CLS[] = {"dense", "sparse", "diagonal", "projector", "identity-multiple", "single-generator", "repeated-eigenvalues", "near-degenerate", "zero", "zero-02-entry", "mixed-scales", "unit-and-tiny-generators", "unit-and-tiny-generators", "chain-with-uncoupled-levels", "chain-with-uncoupled-levels"};

static void check_decomposition(const std::vector<double>& c, int d, bool order, CaseInfo& ci, const std::vector<ld>& known = std::vector<ld>(), unsigned kind = 0) {
  VecHolder hv; SU_vector& v = hv.make(c, d, kind); ci.label(std::string("storage-") + hv.kind);  // the storage kind must not matter
  Mat M = toM(c, d);
  auto es = v.GetEigenSystem(order);
  CHECK(es.first && es.second && (int)es.first->size == d && (int)es.second->size1 == d && (int)es.second->size2 == d, "C12|GetEigenSystem|shape", "d=%d", d);
  CHECK(comps(v) == c, "C12|GetEigenSystem|operand-modified", "d=%d", d);
  std::vector<ld> L(d);
  Mat V = fromGsl(es.second.get());
  for (int i = 0; i < d; i++) {
    double l = gsl_vector_get(es.first.get(), i);
    CHECK(std::isfinite(l), fmt("C12|GetEigenSystem|nonfinite|dim=%d", d), "eigenvalue %d = %g :: %s", i, l, ci.sample.c_str());
    L[i] = l;
  }
  CHECK(all_finite(V), fmt("C12|GetEigenSystem|nonfinite|dim=%d", d), "eigenvector matrix has a non-finite entry :: %s", ci.sample.c_str());
  ld nM = frob(M);
  Mat D(d); for (int i = 0; i < d; i++) D.a[i][i] = cld(L[i], 0);
  ld res = frob(M * V - V * D);
  ld tol = 1e-12L * nM + TINY;  // 2M thorough cases stay below 4e-15 |M|_F: more than 200x headroom
  CHECK(res <= tol, fmt("C12|GetEigenSystem|residual|dim=%d", d), "|MV-VL|_F=%.3Lg > 1e-12*|M|_F=%.3Lg :: %s", res, tol, ci.sample.c_str());
  ci.ratio(fmt("residual-d%d", d), (double)(res / tol));
  ld un = unitarity_defect(V);
  CHECK(un <= 1e-12L, fmt("C12|GetEigenSystem|not-unitary|dim=%d", d), "|V^dagger V - I|_F=%.3Lg :: %s", un, ci.sample.c_str());
  ci.ratio(fmt("unitarity-d%d", d), (double)(un / 1e-12L));
  if (order) for (int i = 0; i + 1 < d; i++)
    CHECK(L[i] <= L[i + 1], fmt("C12|GetEigenSystem|not-ascending|dim=%d", d), "L[%d]=%.17Lg > L[%d]=%.17Lg :: %s", i, L[i], i + 1, L[i + 1], ci.sample.c_str());
  if (!known.empty()) {
    std::vector<ld> Ls = L; std::sort(Ls.begin(), Ls.end());
    for (int i = 0; i < d; i++)
      CHECK(fabsl(Ls[i] - known[i]) <= 1e-12L * nM + 64 * d * EPS * nM + TINY, fmt("C12|GetEigenSystem|wrong-spectrum|dim=%d", d), "eigenvalue %d: %.17Lg vs constructed %.17Lg :: %s", i, Ls[i], known[i], ci.sample.c_str());
  }
}
// Enumerated family (see enumerate()): six levels, a chain a -w- b -z- c -z- e with one weak real link w = 1e-9 and two equal links
// z = 0.8 -+ i, the other two levels uncoupled, and a common offset m x 1e-12 with a three-digit mantissa. Exact zeros next to entries of
// order one are where the rounding residues of a tridiagonalisation get squared from step to step; whether that ends in a subnormal
// column depends on the placement of the chain and on the mantissa, so all of them are cases.
static const uint8_t FAMILY_TAG = 199;
static bool decode_chain_family(ByteSource& s, std::vector<double>& c, std::string* desc) {
  if (s.n < 8 || s.p[0] != FAMILY_TAG) return false;
  s.u8();
  int lv[4]; bool used[6] = {false, false, false, false, false, false};
  for (int q = 0; q < 4; q++) { int v = (int)s.choose(6); while (used[v]) v = (v + 1) % 6; used[v] = true; lv[q] = v; }
  int m = 100 + (int)(s.u16() % 900); int sign = s.flag() ? 1 : -1;
  c.assign(36, 0.0);
  auto link = [&](int i, int j, double re, double im) { if (i > j) { std::swap(i, j); im = -im; } c[6 * i + j] = re; c[6 * j + i] = -im; };  // M(i,j) = re + i im for i<j
  link(lv[0], lv[1], 1e-9, 0.0); link(lv[1], lv[2], 0.8, -1.0 * sign); link(lv[3], lv[2], 0.8, -1.0 * sign);
  c[0] = m * 1e-12;
  if (desc) *desc = fmt("chain %d -w- %d -z- %d -z- %d sign %d offset %de-12", lv[0], lv[1], lv[2], lv[3], sign, m);
  return true;
}
void run_case(ByteSource& s, CaseInfo& ci) {
  { std::vector<double> fc; std::string fd;
    if (decode_chain_family(s, fc, &fd)) {
      ci.nontrivial = true; ci.label("chain-family"); ci.sample = "GetEigenSystem(order=1) d=6 " + fd + " comps=" + vec_str(fc);
      check_decomposition(fc, 6, true, ci);
      return;
    } }
  int d = gen_dim(s);
  unsigned k = s.choose(13);
  if (s.tail_at(54) % 10 == 1) k = 13;  // (tail byte) the chain class was added later
  bool order = !s.flag();
  std::vector<double> c(d * d, 0.0);
  std::vector<ld> known;  // constructed spectrum, if any
  switch (k) {
    case 0: c = gen_dense(s, d); break;
    case 1: for (int i = 0; i < d * d; i++) if (s.choose(3) == 1) c[i] = s.num(10); break;
    case 2: if (s.flag()) c[0] = s.num(10); for (int m = 1; m < d; m++) c[d * m + m] = s.num(10); break;
    case 3: { int i = (int)s.choose(d); SU_vector P = SU_vector::Projector(d, i); c = comps(P); break; }
    case 4: c[0] = s.num(30); break;
    case 5: { int i = (int)(s.u8() % (unsigned)(d * d)); c[i] = s.flag() ? 1.0 : s.num(10); break; }
    case 6: case 7: {
      Mat W = gen_unitary(s, d);
      std::vector<ld> l(d);
      for (int i = 0; i < d; i++) l[i] = (ld)(4 * s.dense());
      if (k == 6) { int reps = 1 + (int)s.choose(d - 1); for (int r = 0; r < reps; r++) { int i = (int)s.choose(d), j = (int)s.choose(d); l[j] = l[i]; } }
      else { int i = (int)s.choose(d), j = (int)s.choose(d); if (i != j) l[j] = l[i] * (1 + (ld)std::ldexp(1.0 + s.unif01(), -s.range(10, 47))); }
      Mat D(d); for (int i = 0; i < d; i++) D.a[i][i] = cld(l[i], 0);
      Mat M = W * D * dagger(W);
      std::vector<ld> cc = fromM(M);
      for (int i = 0; i < d * d; i++) c[i] = (double)cc[i];
      known = l; std::sort(known.begin(), known.end());
      break;
    }
    case 11: case 12: {  // a few generators with coefficient +-1 next to a few with a tiny (but normal) coefficient 10^-u: the entries of an
      // operator whose coherences have decayed; the reduced columns of a tridiagonalisation are high powers of the tiny entries
      int nu = 1 + (int)s.choose(3), nt = 1 + (int)s.choose(3);
      for (int q = 0; q < nu; q++) c[s.u16() % (unsigned)(d * d)] = s.flag() ? 1.0 : -1.0;
      double u = 20 + 290 * s.unif01();  // 1e-20 .. 1e-310
      for (int q = 0; q < nt; q++) c[s.u16() % (unsigned)(d * d)] = (s.flag() ? 1.0 : -1.0) * std::pow(10.0, -u) * (s.flag() ? 1.0 : 1.0 + s.unif01());
      break;
    }
    case 13: case 14: {  // a chain of coupled levels (one weak link, the others of order one), the remaining levels uncoupled, and a small common
      // offset: block structure makes exact zeros appear inside a tridiagonalisation, where rounding residues are then squared step by step
      int L = 3 + (int)s.choose((unsigned)std::max(1, d - 2)); if (L > d) L = d;
      std::vector<int> perm(d); for (int i = 0; i < d; i++) perm[i] = i;
      for (int i = d - 1; i > 0; i--) { int j = (int)s.choose(i + 1); std::swap(perm[i], perm[j]); }
      Mat M(d);
      int weak = (int)s.choose(L - 1);
      for (int q = 0; q + 1 < L; q++) {
        cld z = q == weak ? cld(std::pow(10.0, -(double)s.range(6, 19)) * (1 + s.choose(9)), 0) : cld(0.1 * (1 + s.choose(12)), s.flag() ? 1.0 : 0.0);
        M.a[perm[q]][perm[q + 1]] = z; M.a[perm[q + 1]][perm[q]] = std::conj(z);
      }
      ld off = (ld)(100 + (int)(s.u16() % 900)) * powl(10.0L, -(ld)s.range(10, 15));  // three-digit mantissa
      for (int i = 0; i < d; i++) M.a[i][i] = cld(off, 0);
      std::vector<ld> cc = fromM(M);
      for (int i = 0; i < d * d; i++) c[i] = (double)cc[i];
      c[0] = (double)off;  // the offset is exactly the identity component
      for (int i = 1; i < d; i++) c[d * i + i] = 0.0;
      break;
    }
    case 8: break;
    case 9: { c = gen_dense(s, d); if (d >= 3) { c[2] = 0; c[2 * d] = 0; } break; }
    default: { for (int i = 0; i < d * d; i++) c[i] = s.dense() * std::ldexp(1.0, s.range(-27, 27)); break; }
  }
  if (k != 8 && s.choose(3) == 1) { double sc = std::ldexp(1.0, s.range(-100, 100)); for (auto& x : c) x *= sc; for (auto& x : known) x *= sc; ci.label("rescaled"); }
  // (until /repo fix 30a0961 entries below 2^-300 were flushed here as a domain bound: their squares underflow inside GSL's Householder
  // steps. The library now conditions the matrix itself, so tiny and subnormal entries are part of the domain again.)
  ci.nontrivial = true;
  ci.label(fmt("%s-d%d", CLS[k], d)); ci.label(order ? "ordered" : "unordered");
  ci.sample = fmt("GetEigenSystem(order=%d) d=%d class=%s comps=%s", (int)order, d, CLS[k], vec_str(c).c_str());
  check_decomposition(c, d, order, ci, known, s.tail_choose(8));
}
// every ordered placement of the chain on four of the six levels x both signs x offsets m x 1e-12 (m = 100..999; every 3rd in the quick tier)
void enumerate(const Emit& emit, const std::string& tier) {
  int step = tier == "quick" ? 3 : 1;
  for (int a = 0; a < 6; a++) for (int b = 0; b < 6; b++) for (int c = 0; c < 6; c++) for (int e = 0; e < 6; e++) {
    if (a == b || a == c || a == e || b == c || b == e || c == e) continue;
    for (int sg = 0; sg < 2; sg++) for (int m = 100; m < 1000; m += step) {
      int mm = m - 100;
      emit({FAMILY_TAG, (uint8_t)a, (uint8_t)b, (uint8_t)c, (uint8_t)e, (uint8_t)(mm & 255), (uint8_t)(mm >> 8), (uint8_t)sg});
    }
  }
}

// fixed finding ba8a2de: NaN from the closed-form SU(3) solver for zero / diagonal / projector / identity-multiple inputs
void regressions() {
  std::vector<std::vector<double>> inputs;
  inputs.push_back(std::vector<double>(9, 0.0));
  { std::vector<double> c(9, 0.0); c[0] = 2.5; inputs.push_back(c); }
  { std::vector<double> c(9, 0.0); c[4] = 0.3; c[8] = -0.7; c[0] = 0.1; inputs.push_back(c); }
  inputs.push_back(comps(SU_vector::Projector(3, 1)));
  { std::vector<double> c(9, 0.0); c[1] = 1.0; inputs.push_back(c); }
  for (auto& c : inputs) for (bool order : {true, false}) {
    SU_vector v = make_vec(c, 3);
    auto es = v.GetEigenSystem(order);
    Mat M = toM(c, 3), V = fromGsl(es.second.get()), D(3);
    for (int i = 0; i < 3; i++) { double l = gsl_vector_get(es.first.get(), i); CHECK(std::isfinite(l), "C12|GetEigenSystem|nonfinite|dim=3", "regression: eigenvalue %d of %s", i, vec_str(c).c_str()); D.a[i][i] = cld(l, 0); }
    CHECK(all_finite(V) && frob(M * V - V * D) <= 1e-12L * frob(M) + TINY && unitarity_defect(V) <= 1e-12L, "C12|GetEigenSystem|nonfinite|dim=3", "regression: invalid decomposition of %s", vec_str(c).c_str());
  }
  // eeed5e1: rounding residues squared inside GSL's tridiagonalisation (NaN, or a finite but non-unitary result) for a chain of levels
  // with one weak link, uncoupled levels and a small offset
  for (int m : {123, 154, 179, 246, 358}) for (int variant = 0; variant < 2; variant++) {
    std::vector<double> c(36, 0.0); c[0] = m * 1e-12;
    if (variant == 0) { c[3] = 1e-9; c[5] = 0.8; c[30] = 1; c[17] = 0.8; c[32] = 1; }      // chain 3 - 0 - 5 - 2
    else { c[10] = 1e-9; c[11] = 0.8; c[31] = -1; c[23] = 0.8; c[33] = -1; }               // chain 4 - 1 - 5 - 3
    SU_vector v = make_vec(c, 6);
    auto es = v.GetEigenSystem(true);
    Mat M = toM(c, 6), V = fromGsl(es.second.get()), D(6); bool fin = all_finite(V);
    for (int i = 0; i < 6; i++) { double l = gsl_vector_get(es.first.get(), i); fin = fin && std::isfinite(l); D.a[i][i] = cld(l, 0); }
    CHECK(fin && frob(M * V - V * D) <= 1e-12L * frob(M) + TINY && unitarity_defect(V) <= 1e-12L, "C12|GetEigenSystem|nonfinite|dim=6", "regression: invalid decomposition of %s", vec_str(c).c_str());
  }
  // 30a0961: entries of order one next to tiny ones, and uniformly tiny matrices (NaN from underflow inside gsl_eigen_hermv)
  struct { int d; std::vector<std::pair<int, double>> e; } wide[] = {
    {6, {{4, 1.0}, {10, 1.0}, {6, -1e-40}, {9, 1e-40}}}, {4, {{3, 1.0}, {0, 1e-110}, {4, 1e-100}}}, {6, {{1, -1.0}, {27, -1.0}, {3, 1e-30}, {6, 1e-30}, {35, -1e-30}}},
    {4, {{0, 1e-300}, {3, 1e-300}}}, {3, {{0, 1.0}, {2, 1e-310}}}, {5, {{0, 1.0}, {2, 1e-310}}}};
  for (auto& w : wide) {
    std::vector<double> c(w.d * w.d, 0.0); for (auto& pr : w.e) c[pr.first] = pr.second;
    SU_vector v = make_vec(c, w.d);
    auto es = v.GetEigenSystem(true);
    Mat M = toM(c, w.d), V = fromGsl(es.second.get()), D(w.d); bool fin = all_finite(V);
    for (int i = 0; i < w.d; i++) { double l = gsl_vector_get(es.first.get(), i); fin = fin && std::isfinite(l); D.a[i][i] = cld(l, 0); }
    CHECK(fin && frob(M * V - V * D) <= 1e-12L * frob(M) + TINY && unitarity_defect(V) <= 1e-12L, fmt("C12|GetEigenSystem|nonfinite|dim=%d", w.d), "regression: invalid decomposition of %s", vec_str(c).c_str());
  }
}
