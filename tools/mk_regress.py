#!/usr/bin/env python3
"""usage: mk_regress.py <PID> <failing-replay.json> <name> : store a saved failing case as replays/regress/<PID>-<name>.json with the
decoding it has on the current (repaired) tree, after confirming that it passes there."""
import json, subprocess, re, os, sys
pid, src, name = sys.argv[1:4]
d = json.load(open(src))
env = dict(os.environ, VERIF_OUT='/tmp/mkregress-out')
out = subprocess.run(['/verif/check', pid, '--replay', src], env=env, stdout=subprocess.PIPE, stderr=subprocess.STDOUT, text=True).stdout
if 'VIOLATION' in out:
    print('still failing on the current tree:', out[-400:]); sys.exit(1)
m = re.search(r'^decoded=(.*)$', out, re.M)
d['decoded'] = m.group(1).strip() if m else d.get('decoded', '')
d['message'] = d['message'][:1500]
dst = '/verif/replays/regress/%s-%s.json' % (pid, name)
json.dump(d, open(dst, 'w'), indent=1)
print(dst, '::', d['signature'], '::', d['decoded'][:120])
