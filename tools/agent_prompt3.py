#!/usr/bin/env python3
# third-round prompt: clause-coverage oriented. Lists what earlier rounds did and asks for the parts of the property's
# statement / quantification that none of them touched.
import json, sys, glob, os, subprocess
pid = sys.argv[1]
base = subprocess.check_output([sys.executable, '/verif/tools/agent_prompt.py', pid]).decode()
base = base.replace('/tmp/seed/%s' % pid, '/tmp/seed3/%s' % pid).replace('/tmp/wt/%s' % pid, '/tmp/wt3/%s' % pid)
prev = []
for d in sorted(glob.glob('/verif/seeded/%s-*' % pid)):
    n = open(os.path.join(d, 'note.txt')).read().strip().replace('\n', ' ')
    prev.append('- ' + n[:450])
extra = """

THIRD ROUND - IMPORTANT: other engineers have already produced the seeded bugs listed below for this property. Before writing anything, go through the property's STATEMENT and QUANTIFIED OVER clause by clause (every operation, entry point, overload, storage kind, dimension, value range, ordering and error case it names or implies) and through the source files, and write down which clauses / code paths NONE of the earlier changes exercises. Each of your two changes must live in such an untouched clause or code path (a different public entry point or overload, a different kernel family, a different branch of a conditional, a different failure path) - not merely a different line of an already-used function. Prefer a change that looks like an innocent refactoring or optimisation a reviewer would wave through, and whose effect needs a specific but legal situation (one dimension, one index pair, one ordering of calls, one value band, one storage kind, large-but-legal magnitudes, an operand that is itself the result of an earlier operation). It must still be a clear violation of the property exactly as stated (not of some stronger property you would like it to state) and be shown by a deterministic demo.
Already used:
""" + '\n'.join(prev) + "\n\nNote: the Makefile does not track header dependencies, so run `make clean && make -s` after every source change.\n"
print(base + extra)
