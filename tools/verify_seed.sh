#!/bin/sh
# usage: verify_seed.sh <ID> <k> [<srcroot> [<outk>]]  (reads <srcroot>/<ID>/patch<k>.diff, demo<k>.cpp, note<k>.txt; srcroot defaults
# to /tmp/seed; the seed is stored as /verif/seeded/<ID>-<outk>, outk defaults to k)
# Confirms in a scratch worktree: patch applies, library builds, the 24 baseline tests pass, the demo passes without and
# fails with the change. On success copies the material to /verif/seeded/<ID>-<k>/ with meta.json.
ID=$1; K=$2; ROOT=${3:-/tmp/seed}; OK=${4:-$K}
S=$ROOT/$ID; W=/tmp/wtv/$ID-$OK
mkdir -p /tmp/wtv; rm -rf $W
/verif/tools/mkworktree.sh $W >/dev/null || exit 2
cd $W || exit 2
res() { echo "VERIFY $ID-$OK: $1"; git -C /repo worktree remove --force $W; exit $2; }
make -s >/dev/null 2>&1 || res "pristine build failed" 1
g++ -std=c++11 -O2 -I$W/include $S/demo$K.cpp $W/lib/libSQuIDS.a -lgsl -lgslcblas -lm -o $W/demo_pre 2>/dev/null || res "demo does not compile" 1
$W/demo_pre >$W/pre.out 2>&1; PRE=$?
git apply $S/patch$K.diff || res "patch does not apply" 1
make clean >/dev/null 2>&1; make -s >/dev/null 2>&1 || res "mutated build failed" 1
T=$(make test 2>&1 | tail -1)
g++ -std=c++11 -O2 -I$W/include $S/demo$K.cpp $W/lib/libSQuIDS.a -lgsl -lgslcblas -lm -o $W/demo_post 2>/dev/null || res "demo does not compile against mutated headers" 1
$W/demo_post >$W/post.out 2>&1; POST=$?
echo "$T" | grep -q "24 passes, 0 failures" || res "baseline tests fail with the change: $T" 1
[ $PRE -eq 0 ] || res "demo fails on pristine tree" 1
[ $POST -ne 0 ] || grep -q FAIL $W/post.out || res "demo does not fail with the change" 1
D=/verif/seeded/$ID-$OK; mkdir -p $D
cp $S/patch$K.diff $D/patch.diff; cp $S/demo$K.cpp $D/demo.cpp; cp $S/note$K.txt $D/note.txt 2>/dev/null
python3 - "$ID" "$OK" "$T" "$PRE" "$POST" "$(tail -1 $W/post.out)" <<'PY'
import json,sys,subprocess
ID,K,T,PRE,POST,last=sys.argv[1:7]
note=open('/verif/seeded/%s-%s/note.txt'%(ID,K)).read() if True else ''
base=subprocess.check_output(['git','-C','/repo','rev-parse','--short','HEAD']).decode().strip()
json.dump({"breaks_property":ID,"origin":"independent sub-agent given only the property text and a scratch worktree","base_commit":base,
 "needs_to_manifest":note.strip()[:1500],
 "confirmed":{"what_i_ran":"tools/verify_seed.sh %s %s: scratch worktree of /repo HEAD; make; demo (exit %s); git apply patch; make clean && make; make test; demo (exit %s)"%(ID,K,PRE,POST),
              "baseline_tests_with_change":T,"demo_exit_pristine":int(PRE),"demo_exit_mutated":int(POST),"demo_last_line_mutated":last},
 "detected_by":[]}, open('/verif/seeded/%s-%s/meta.json'%(ID,K),'w'), indent=1)
PY
res "OK ($T; demo $PRE -> $POST)" 0
