NOTE = "Trusted base: clang 14 ASan/UBSan, rapidcheck, the harness' independent long-double matrix model (harness/common/ref.h), libgsl (uninstrumented). Sampling never establishes absence."
META = {
 "C13": dict(technique="bounded-exhaustive enumeration of all factory objects + rapidcheck linear combinations against an independent Gell-Mann matrix model",
             text="Every factory object for d=2..6 and every admissible index is enumerated (exhaustive over the finite domain) and compared entry-wise with the documented 0/1 matrix through a reference model that shares no code with the library; random linear combinations add the algebraic consequences.",
             note=NOTE),
}
PENDING = {}
