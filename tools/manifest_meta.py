NOTE = "Trusted base: clang 14 ASan/UBSan, rapidcheck, the harness' independent long-double matrix model (harness/common/ref.h), libgsl (uninstrumented). Sampling never establishes absence."
META = {
 "C13": dict(technique="bounded-exhaustive enumeration of all factory objects + rapidcheck linear combinations against an independent Gell-Mann matrix model",
             text="Every factory object for d=2..6 and every admissible index is enumerated (exhaustive over the finite domain) and compared entry-wise with the documented 0/1 matrix through a reference model that shares no code with the library; random linear combinations add the algebraic consequences.",
             note=NOTE),
}
META.update({
 "C01": dict(technique="rapidcheck byte-decoded component vectors / Hermitian matrices; round-trip + differential oracle against an independent closed-form Gell-Mann model; bit-exact IEEE differential for element-wise operations",
             text="Generated search over all five dimensions with structured value classes (zeros, single generators, magnitudes to 2^+-1000); conversions are compared entry-wise with a model that shares no code with the generated kernels, element-wise operations are held to bit equality, every component slot of every dimension is hit (reported as slot classes). A wrong coefficient/index/sign in any SUToMatrix/MatrixToSU kernel is an O(1) discrepancy against a tolerance of a few eps.",
             note=NOTE),
 "C02": dict(technique="bounded-exhaustive enumeration of all 2274 ordered generator pairs + rapidcheck pairs; differential oracle against long-double matrix products; metamorphic antisymmetry/symmetry/bilinearity",
             text="Structure constants are fixed by their action on generator pairs, which are enumerated exhaustively for d=2..6; random dense/sparse/scaled pairs in all storage kinds add rounding-scale and alignment coverage. Two-sided comparison of every output component.",
             note=NOTE),
 "C03": dict(technique="rapidcheck (H,t,A) cases; differential oracle against exact phase conjugation in long double; metamorphic group law, inverse, scalar-product invariance; two-step buffer form in exact-size heap buffers under ASan",
             text="Generated spectra (distinct, degenerate, zero, integer), times from 0 to 1e6 of both signs and structured A; every output component is compared with the model U A U^dagger; the prepared-buffer form is checked against both the model and the direct form.",
             note=NOTE),
 "C06": dict(technique="enumeration of all 35 rotation kernels x angle/phase classes + rapidcheck; differential oracle against long-double similarity transforms; cross-entry-point consistency; exhaustive index-validity table for the parameter store",
             text="Every generated rotation kernel is exercised with special and random angles and compared with R^dagger A R in the model; the mixing matrix is checked for unitarity and against the ordered product; all matrix entry points are compared with U^dagger A U / U A U^dagger and with each other.",
             note=NOTE),
 "C07": dict(technique="rapidcheck matrix classes with norm sweep over all Pade bands and call histories; oracle: closed-form / long-double Taylor reference with Frechet-derivative conditioning; metamorphic inverse/transpose/permutation relations",
             text="Accuracy is demanded relative to the conditioning of the problem (Kronecker form of the Frechet derivative), for eight matrix classes, n=2..6, norms 1e-8..1e3, with earlier exponentials of other sizes on the same thread. Band membership (order 3/5/7/9/13, squaring count) is measured and reported per n.",
             note=NOTE + " The library's norm estimator uses a thread-local RNG, so band selection at a threshold depends on process history."),
 "C12": dict(technique="rapidcheck structured Hermitian inputs; validity-predicate oracle (finite, residual, unitarity, ordering, constructed spectrum)",
             text="Many outputs are correct, so a validity predicate is checked rather than one answer: M V = V diag(L) and V unitary to 1e-10, ascending order, finiteness, for dense/sparse/diagonal/projector/identity/degenerate/near-degenerate/zero inputs in every dimension.",
             note=NOTE + " Inputs with entries below 2^-300 are flushed to zero (squares would underflow inside GSL)."),
})
PENDING = {}
