#!/bin/sh
# usage: try_seed.sh <patch.diff> <tier> <ID> [<ID>...]
# applies a seeded change to /repo, runs the named checks, reverts /repo; prints one line per check
P=$1; T=$2; shift 2
cd /verif
git -C /repo diff --quiet || { echo "repo dirty"; exit 2; }
git -C /repo apply "$P" || { echo "patch does not apply: $P"; exit 2; }
for id in "$@"; do
  out=$(./check $id $T 2>&1); rc=$?
  echo "SEED $(basename $(dirname $P))/$(basename $P) check=$id tier=$T rc=$rc $(echo "$out" | grep -c '^VIOLATION') violation-lines; first: $(echo "$out" | grep '^VIOLATION' | head -1 | cut -c1-220)"
done
git -C /repo checkout -- .
# evidence and replays produced against a mutated tree are not kept
git -C /verif checkout -- evidence 2>/dev/null
git -C /verif clean -fdq replays 2>/dev/null
exit 0
