#!/bin/sh
# usage: try_seed.sh <seed-name> <tier> <ID> [<ID>...]
# Runs the named checks against a scratch worktree of /repo HEAD with /verif/seeded/<seed-name>/patch.diff applied
# (equivalent to applying it to /repo, but leaves /repo and the committed evidence untouched). One line per check.
N=$1; T=$2; shift 2
W=/tmp/seedrepo-$N; O=/tmp/seedout-$N
rm -rf $W $O; /verif/tools/mkworktree.sh $W >/dev/null || exit 2
git -C $W apply /verif/seeded/$N/patch.diff 2>/dev/null || { echo "SEED $N: patch does not apply"; git -C /repo worktree remove --force $W; exit 2; }
cd /verif
for id in "$@"; do
  out=$(VERIF_REPO=$W VERIF_OUT=$O ./check $id $T 2>&1); rc=$?
  echo "SEED $N check=$id tier=$T rc=$rc :: $(echo "$out" | grep '^VIOLATION' | head -1 | sed 's/.*signature=//' | cut -c1-160)"
done
git -C /repo worktree remove --force $W; rm -rf $O
