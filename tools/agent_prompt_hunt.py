#!/usr/bin/env python3
# "hunter" prompt: look for violations of a property in the UNMODIFIED library (no seeded change)
import json, sys
pid = sys.argv[1]
P = {json.loads(l)['id']: json.loads(l) for l in open('/verif/properties.jsonl')}[pid]
files = ', '.join(P['anchors']['files'][:8])
print(f"""You are helping to evaluate the C++ library jsalvado/SQuIDS (SU(N) density-matrix algebra, GSL ODE evolution, Pade matrix exponential).

You have your own scratch git worktree of the library at /tmp/wt4/{pid} (work ONLY there and in /tmp/hunt/{pid}; never touch /repo or /verif, and do not read anything under /verif). Build it with `cd /tmp/wt4/{pid} && make -s` (a few seconds) ; compile programs against it like: g++ -std=c++11 -O2 -I/tmp/wt4/{pid}/include prog.cpp /tmp/wt4/{pid}/lib/libSQuIDS.a -lgsl -lgslcblas -lm -lpthread -o prog . You may also build with -fsanitize=address,undefined (clang++ or g++; compile the four files in src/ together with your program) when memory safety matters.

Here is a semantic property the library is supposed to satisfy:

TITLE: {P['title']}
STATEMENT: {P['statement']}
QUANTIFIED OVER: {P['quantifier']['text']}
Relevant source files: {files} (plus generated kernel files under include/SQuIDS/SU_inc/ where relevant).

YOUR TASK: find inputs, call sequences or situations for which the library AS IT IS (do NOT modify the library sources) VIOLATES this property exactly as stated - not a stronger property you would like it to state, and only for inputs inside the quantified domain that a legitimate caller could produce. The library has already been through one round of fixes, so the obvious cases work; look where a random or naive test would not: read the source of every entry point the property covers and reason about special structure (sparse / integer / zero-sum / degenerate / repeated / extreme-but-legal magnitudes / exact boundary values / specific dimensions / specific index pairs / unusual storage kinds such as externally backed or misaligned buffers / unevaluated expression operands / objects with a history such as moved-from, resized, re-initialised / particular orders of calls / error paths), about every branch and threshold in the code, about thread-local or static scratch state carried between calls, and about numerical cancellation. Write small experiments (loops over structured families are better than random sampling) to confirm or refute each suspicion.

Deliver in /tmp/hunt/{pid}/ :
  - for every CONFIRMED violation k=1,2,...: demo<k>.cpp, a small standalone C++11 program using only the public API that prints FAIL (and exits non-zero) on the library as it is, with a comment block at the top explaining the input, the expected behaviour according to the property, the observed behaviour, and the root cause in the source (file:line); keep each to ONE root cause, minimal input.
  - report.txt : for each violation a 3-6 line summary (root cause, how narrow it is, suggested minimal fix); and, just as important, a list of the regions/ideas you examined that turned out to be CORRECT (so that nobody repeats them), and anything you suspect but could not confirm.
Do not report: behaviour for inputs outside the quantified domain, differences at the level of a few ulps where the statement allows a tolerance, or undefined preconditions documented in the headers. If you find nothing after a serious effort, say so in report.txt - that is a perfectly good outcome. In your final answer summarise report.txt.""")
