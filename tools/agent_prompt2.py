#!/usr/bin/env python3
# second-round prompt: like agent_prompt.py but lists the changes already made for this property, to be avoided
import json, sys, glob, os, subprocess
pid = sys.argv[1]
base = subprocess.check_output([sys.executable, '/verif/tools/agent_prompt.py', pid]).decode()
base = base.replace('/tmp/seed/%s' % pid, '/tmp/seed2/%s' % pid).replace('/tmp/wt/%s' % pid, '/tmp/wt2/%s' % pid)
prev = []
for d in sorted(glob.glob('/verif/seeded/%s-*' % pid)):
    n = open(os.path.join(d, 'note.txt')).read().strip().replace('\n', ' ')
    prev.append('- ' + n[:600])
extra = """

SECOND ROUND - IMPORTANT: other engineers have already produced the following seeded bugs for this property. Yours must be DIFFERENT from all of them in mechanism and location (do not re-use the same function/kernel/line or the same kind of mistake), and should be SUBTLER: prefer effects that are small (e.g. a loss of accuracy of a few orders of magnitude rather than an O(1) error, a wrong result only in a narrow parameter band or at a boundary value, a failure only after a particular sequence of calls or only for one storage kind / alignment / dimension), while still being a clear violation of the property as stated and still demonstrable by a deterministic demo.
Already used:
""" + '\n'.join(prev) + "\n\nNote: the Makefile does not track header dependencies, so run `make clean && make -s` after every source change.\n"
print(base + extra)
