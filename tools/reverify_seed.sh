#!/bin/sh
# usage: reverify_seed.sh <seed-name> : re-confirm a stored seeded change against the current /repo HEAD (patch applies, library builds,
# the 24 baseline tests pass, the demo passes without and fails with the change). Prints one line; exit 0 iff still valid.
N=$1; S=/verif/seeded/$N; W=/tmp/wtv/$N
mkdir -p /tmp/wtv; rm -rf $W
/verif/tools/mkworktree.sh $W >/dev/null || { echo "REVERIFY $N: worktree failed"; exit 2; }
cd $W || exit 2
res() { echo "REVERIFY $N: $1"; git -C /repo worktree remove --force $W; exit $2; }
make -s >/dev/null 2>&1 || res "pristine build failed" 1
g++ -std=c++11 -O2 -I$W/include $S/demo.cpp $W/lib/libSQuIDS.a -lgsl -lgslcblas -lm -lpthread -o $W/demo_pre 2>/dev/null || res "demo does not compile" 1
timeout 300 $W/demo_pre >$W/pre.out 2>&1; PRE=$?
git apply $S/patch.diff 2>/dev/null || res "patch does not apply" 1
make clean >/dev/null 2>&1; make -s >/dev/null 2>&1 || res "mutated build failed" 1
T=$(make test 2>&1 | tail -1)
g++ -std=c++11 -O2 -I$W/include $S/demo.cpp $W/lib/libSQuIDS.a -lgsl -lgslcblas -lm -lpthread -o $W/demo_post 2>/dev/null || res "demo does not compile against mutated headers" 1
timeout 300 $W/demo_post >$W/post.out 2>&1; POST=$?
echo "$T" | grep -q "24 passes, 0 failures" || res "baseline tests fail with the change: $T" 1
[ $PRE -eq 0 ] || res "demo fails on the unchanged tree (exit $PRE)" 1
[ $POST -ne 0 ] || grep -q FAIL $W/post.out || res "demo does not fail with the change" 1
res "OK" 0
