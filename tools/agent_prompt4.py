#!/usr/bin/env python3
# fourth-round prompt: the library has changed (fix commits); ask for changes in the new/changed code and in paths still untouched
import json, sys, glob, os, subprocess
pid = sys.argv[1]
base = subprocess.check_output([sys.executable, '/verif/tools/agent_prompt.py', pid]).decode()
base = base.replace('/tmp/seed/%s' % pid, '/tmp/seed4/%s' % pid).replace('/tmp/wt/%s' % pid, '/tmp/wt5/%s' % pid)
prev = []
for d in sorted(glob.glob('/verif/seeded/%s-*' % pid)):
    n = open(os.path.join(d, 'note.txt')).read().strip().replace('\n', ' ')
    prev.append('- ' + n[:300])
extra = """

FOURTH ROUND - IMPORTANT. (1) The library has recently received a series of bug fixes (`git -C /tmp/wt5/%s log --oneline d2b7b4b..HEAD` lists them, `git show <commit>` shows each). Fixes are where the next mistakes are made: a later refactoring that simplifies a guard the fix introduced, reorders two statements whose order the fix depends on, narrows a condition, "tidies" a special case away, or copies the fixed code to a sibling function incompletely. At least ONE of your two changes must be of that kind: it must sit in code that one of those commits added or changed and that is relevant to this property, and it must re-open the problem only partially or in a different corner (NOT simply revert the fix). If no fix commit touches code relevant to this property, say so and make both changes of kind (2). (2) The other change must live in a clause, entry point, overload, kernel family, branch or failure path of this property that NONE of the earlier seeded changes listed below touches.
Both must look like something a reviewer would wave through, need a specific but legal situation to manifest (see the list of ideas above), still be a clear violation of the property exactly as stated, and be shown by a deterministic demo.
Already used:
""" % pid + '\n'.join(prev) + "\n\nNote: the Makefile does not track header dependencies, so run `make clean && make -s` after every source change.\n"
print(base + extra)
