#!/bin/sh
# usage: mkworktree.sh <dir> : scratch worktree of /repo HEAD with the generated (untracked) build files copied in
set -e
D=$1
git -C /repo worktree add --detach "$D" HEAD >/dev/null 2>&1
cp /repo/Makefile /repo/settings.mk "$D"/
cp /repo/include/SQuIDS/version.h "$D"/include/SQuIDS/
cp /repo/test/env_vars.sh "$D"/test/
mkdir -p "$D"/lib
[ -f /repo/lib/squids.pc ] && cp /repo/lib/squids.pc "$D"/lib/ || true
echo "$D ready"
