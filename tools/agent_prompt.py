#!/usr/bin/env python3
import json, sys
pid = sys.argv[1]
for l in open('/verif/properties.jsonl'):
    p = json.loads(l)
    if p['id'] == pid:
        break
print(f"""You are helping to evaluate a verification effort for the C++ library jsalvado/SQuIDS (SU(N) density-matrix algebra, GSL ODE evolution, Pade matrix exponential).

You have your own scratch git worktree of the library at /tmp/wt/{pid} (work ONLY there and in /tmp/seed/{pid}; never touch /repo or /verif, and do not read anything under /verif). Build it with `cd /tmp/wt/{pid} && make -s` (a few seconds, g++ -O3) and run the existing test suite with `make test` (about 40 s; all 24 tests must print PASS).

Here is a semantic property the library is supposed to satisfy:

TITLE: {p['title']}
STATEMENT: {p['statement']}
QUANTIFIED OVER: {p['quantifier']['text']}
Relevant source files: {', '.join(f for f in p['anchors']['files'] if 'SU_inc' not in f)} (plus generated kernel files under include/SQuIDS/SU_inc/ where relevant).

YOUR TASK: produce TWO independent, realistic source changes ("seeded bugs") to the library, each of which BREAKS this property while the library still compiles and the existing test suite (`make test`) still passes 24/24. Think of the kind of mistake a maintainer could plausibly make in a refactoring or optimisation: a wrong index/sign/coefficient in one generated kernel of one dimension, an off-by-one, a dropped guard, a stale cached value, a changed comparison, a missing reset of a field, and so on. Prefer changes that need something specific to manifest (a particular dimension or index pair, a multi-step sequence of operations, an unusual but legal input, a particular value range, two cooperating sites that each look fine alone), NOT ones that any ordinary use would expose at once. The two changes should have different root causes and touch different mechanisms.

For EACH change k in {{1,2}} deliver, in /tmp/seed/{pid}/:
  - patch<k>.diff : the change as a unified diff produced by `git -C /tmp/wt/{pid} diff` (relative to the pristine worktree; it must apply with `git apply` to a pristine checkout). Only files under src/ or include/ may be changed (not the tests).
  - demo<k>.cpp   : a small standalone C++11 program using the library's public API that exits 0 and prints PASS on the ORIGINAL library and exits non-zero (or prints FAIL) with the change applied, demonstrating that the property is violated. Compile it like: g++ -std=c++11 -O2 -I/tmp/wt/{pid}/include demo<k>.cpp /tmp/wt/{pid}/lib/libSQuIDS.a -lgsl -lgslcblas -lm -o demo<k>
  - note<k>.txt   : 5-10 lines: what was changed, why it breaks the property, and exactly what is needed for it to manifest.

Procedure you must follow for each change: (1) start from a pristine worktree (`git -C /tmp/wt/{pid} checkout -- .`), build, compile demo and confirm it PASSES; (2) apply your change, rebuild (`make -s`), run `make test` and confirm 24 passes, 0 failures; (3) confirm the demo now FAILS; (4) save the diff; (5) revert the worktree to pristine before starting the next change. Leave the worktree pristine at the end. In your final answer, report for each change: the file/lines changed, the make test result line, and the demo output before/after.""")
