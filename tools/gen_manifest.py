#!/usr/bin/env python3
"""Regenerate MANIFEST.json from harness/plans.py and tools/manifest_meta.py (kept in sync by construction)."""
import json, os, sys
V = os.path.dirname(os.path.dirname(os.path.abspath(__file__)))
sys.path.insert(0, os.path.join(V, "harness")); sys.path.insert(0, os.path.join(V, "tools"))
from plans import PLANS
from manifest_meta import META, PENDING
props = [json.loads(l) for l in open(os.path.join(V, "properties.jsonl"))]
checks, na = [], []
for p in props:
    pid = p["id"]
    if pid in PLANS and pid in META:
        m = META[pid]
        checks.append({
            "property_id": pid,
            "quick_cmd": "./check %s quick" % pid,
            "thorough_cmd": "./check %s thorough" % pid,
            "evidence_file": "evidence/%s.json" % pid,
            "replay_cmd_template": "./check %s --replay {path}" % pid,
            "engine": m.get("engine", "rapidcheck-bytes"),
            "level_claimed": {"category": PLANS[pid]["level"], "text": m["text"], "design_ref": m.get("design_ref", "DESIGN.md section 4, " + pid)},
            "level_note": m["note"],
            "technique": m["technique"],
        })
    else:
        na.append({"property_id": pid, "reason": PENDING.get(pid, "check not built yet in this round; design in DESIGN.md section 4")})
man = {
    "version": 1,
    "setup_cmd": "./check setup",
    "hooks": {"guard": "SQUIDS_VERIF", "enable": "every library object and harness is compiled with -DSQUIDS_VERIF by ./check (no guarded source change exists in /repo; the define is reserved)",
              "baseline_off_cmd": "cd /repo && make -s && make test", "source_commits": [], "add_only": True},
    "engines": [
        {"name": "rapidcheck-bytes", "path": "harness/common/harness.h", "serves_properties": [c["property_id"] for c in checks],
         "kind_free_text": "rapidcheck generates and shrinks a byte string; a structure-aware decoder (harness/common/bytesource.h) turns it into a case; the same run_case serves the enumerators, the replay tier and libFuzzer"},
        {"name": "enumerators", "path": "harness/cXX_*.cpp (enumerate())", "serves_properties": ["C02", "C06", "C09", "C13", "C14", "C16", "C17", "C19"],
         "kind_free_text": "deterministic bounded-exhaustive generators that emit the same byte-encoded cases for the finite axes (generator pairs, rotation kernels, statement shapes, unsupported-argument window, (operation,k) fault points, nx window, schedules with a bounded number of preemptions); sharded with VERIF_ENUM_SHARD"},
        {"name": "libfuzzer", "path": "harness/common/harness.h (-DHARNESS_FUZZ)", "serves_properties": ["C08", "C15"],
         "kind_free_text": "coverage-guided libFuzzer (clang -fsanitize=fuzzer,address,undefined, fork mode) over the same run_case with the oracle inside the target; thorough tier only"},
        {"name": "driver", "path": "check", "serves_properties": [c["property_id"] for c in checks],
         "kind_free_text": "python driver: content-hashed ASan/UBSan/TSan builds from /repo working tree, sharding, crash triage with ddmin, 3x replay confirmation, known findings, evidence"},
    ],
    "checks": checks,
    "not_applicable": na,
    "notes": "Technique family: property-based testing and fuzzing only. See DESIGN.md. Known findings: known_findings.json.",
}
json.dump(man, open(os.path.join(V, "MANIFEST.json"), "w"), indent=1)
print("checks:", [c["property_id"] for c in checks], "not claimed:", [n["property_id"] for n in na])
